"""Independent numpy reference interpreter for symbolic circuits and parameter graphs.

Reads cirkit.symbolic data structures only (classes, configs, graph edges). Never calls
cirkit.backend, cirkit.symbolic.functional or cirkit.symbolic.operators.
"""
from __future__ import annotations

import itertools
import math

import numpy as np
from numpy.polynomial import polynomial as Pn
from scipy.special import comb

from cirkit.symbolic import layers as L
from cirkit.symbolic import parameters as P


# ----------------------------------------------------------------------------- parameter graphs
def _const_value(n: P.ConstantParameter):
    v = n.value
    if isinstance(v, np.ndarray):
        return np.broadcast_to(v, n.shape).copy()
    return np.full(n.shape, v)


def _softmax(x, axis):
    m = np.max(x.real if np.iscomplexobj(x) else x, axis=axis, keepdims=True)
    e = np.exp(x - m)
    return e / e.sum(axis=axis, keepdims=True)


def _logsumexp(x, axis, keepdims=False):
    m = np.max(x, axis=axis, keepdims=True)
    m = np.where(np.isfinite(m), m, 0.0)
    r = np.log(np.sum(np.exp(x - m), axis=axis, keepdims=True)) + m
    return r if keepdims else np.squeeze(r, axis=axis)


def _outer(a, b, axis, fn):
    """Combine along `axis` all pairs (i, j): result index i * nb + j (first operand major)."""
    a_ = np.expand_dims(a, axis + 1)
    b_ = np.expand_dims(b, axis)
    r = fn(a_, b_)
    shp = list(a.shape)
    shp[axis] = a.shape[axis] * b.shape[axis]
    return r.reshape(shp)


# Rounding model of FFT-based polynomial products (cirkit multiplies polynomials by FFT convolution, whose error in
# EVERY coefficient is proportional to the norms of the two coefficient vectors, not to the coefficient itself): inside
# `with fft_noise(seed):` the reference adds 1e-13 * |a| * |b| * u, u ~ U(-1, 1), to every product coefficient, so
# that a perturbed evaluation used as a conditioning estimate accounts for it.
_FFT_NOISE = [None]


class fft_noise:  # pylint: disable=invalid-name
    def __init__(self, seed):
        self.seed = seed

    def __enter__(self):
        _FFT_NOISE[0] = np.random.default_rng(self.seed)

    def __exit__(self, *exc):
        _FFT_NOISE[0] = None
        return False


def eval_node(n, ins, val):
    """Mathematical definition of one symbolic parameter node."""
    if isinstance(n, P.ConstantParameter):
        return _const_value(n)
    if isinstance(n, P.TensorParameter):
        return np.asarray(val[n])
    if isinstance(n, P.ReferenceParameter):
        t = n.deref()
        if isinstance(t, P.ConstantParameter):
            return _const_value(t)
        return np.asarray(val[t])
    if isinstance(n, P.IndexParameter):
        return np.take(ins[0], list(n.indices), axis=n.axis)
    if isinstance(n, P.SumParameter):
        return ins[0] + ins[1]
    if isinstance(n, P.HadamardParameter):
        return ins[0] * ins[1]
    if isinstance(n, P.KroneckerParameter):
        return np.kron(ins[0], ins[1])
    if isinstance(n, P.OuterProductParameter):
        return _outer(ins[0], ins[1], n.axis, np.multiply)
    if isinstance(n, P.OuterSumParameter):
        return _outer(ins[0], ins[1], n.axis, np.add)
    if isinstance(n, P.ExpParameter):
        return np.exp(ins[0])
    if isinstance(n, P.LogParameter):
        with np.errstate(divide="ignore", invalid="ignore"):
            return np.log(ins[0])
    if isinstance(n, P.SquareParameter):
        return ins[0] * ins[0]
    if isinstance(n, P.SoftplusParameter):
        return np.logaddexp(0.0, ins[0])
    if isinstance(n, P.SigmoidParameter):
        return 1.0 / (1.0 + np.exp(-ins[0]))
    if isinstance(n, P.ScaledSigmoidParameter):
        return 1.0 / (1.0 + np.exp(-ins[0])) * (n.vmax - n.vmin) + n.vmin
    if isinstance(n, P.ClampParameter):
        return np.clip(ins[0], n.vmin, n.vmax)
    if isinstance(n, P.ConjugateParameter):
        return np.conj(ins[0])
    if isinstance(n, P.ReduceSumParameter):
        return np.sum(ins[0], axis=n.axis)
    if isinstance(n, P.ReduceProductParameter):
        return np.prod(ins[0], axis=n.axis)
    if isinstance(n, P.ReduceLSEParameter):
        return _logsumexp(ins[0], n.axis)
    if isinstance(n, P.SoftmaxParameter):
        return _softmax(ins[0], n.axis)
    if isinstance(n, P.LogSoftmaxParameter):
        return ins[0] - _logsumexp(ins[0], n.axis, keepdims=True)
    if isinstance(n, P.MixingWeightParameter):
        V = ins[0]  # (K, H)
        K, H = V.shape
        W = np.zeros((K, K * H), dtype=V.dtype)
        for h in range(H):
            for k in range(K):
                W[k, h * K + k] = V[k, h]
        return W
    if isinstance(n, P.GaussianProductMean):
        m1, s1, m2, s2 = ins
        v1, v2 = s1 * s1, s2 * s2
        r = (m1[:, None] * v2[None, :] + m2[None, :] * v1[:, None]) / (v1[:, None] + v2[None, :])
        return r.reshape(-1)
    if isinstance(n, P.GaussianProductStddev):
        s1, s2 = ins
        v1, v2 = s1 * s1, s2 * s2
        r = np.sqrt(v1[:, None] * v2[None, :] / (v1[:, None] + v2[None, :]))
        return r.reshape(-1)
    if isinstance(n, P.GaussianProductLogPartition):
        m1, s1, m2, s2 = ins
        v = (s1 * s1)[:, None] + (s2 * s2)[None, :]
        d = m1[:, None] - m2[None, :]
        r = -0.5 * (math.log(2.0 * math.pi) + np.log(v) + d * d / v)
        return r.reshape(-1)
    if isinstance(n, P.PolynomialProduct):
        a, b = ins
        out = np.zeros((a.shape[0] * b.shape[0], a.shape[1] + b.shape[1] - 1),
                       dtype=np.result_type(a, b))
        for i in range(a.shape[0]):
            for j in range(b.shape[0]):
                out[i * b.shape[0] + j] = np.convolve(a[i], b[j])
                if _FFT_NOISE[0] is not None:
                    u = _FFT_NOISE[0].uniform(-1, 1, size=out.shape[1])
                    out[i * b.shape[0] + j] += 1e-13 * np.linalg.norm(a[i]) * np.linalg.norm(b[j]) * u
        return out
    if isinstance(n, P.PolynomialDifferential):
        a = ins[0]
        if a.shape[1] <= n.order:
            return np.zeros((a.shape[0], 1), dtype=a.dtype)
        return np.stack([Pn.polyder(row, m=n.order) for row in a])
    raise NotImplementedError(f"ref: parameter node {type(n).__name__}")


def param(p: P.Parameter, val) -> np.ndarray:
    out = {}
    for n in p.topological_ordering():
        ins = [out[i] for i in p.node_inputs(n)]
        out[n] = eval_node(n, ins, val)
    return out[p.output]


# ----------------------------------------------------------------------------- input layers
def _var(sl):
    (v,) = tuple(sl.scope)
    return v


def binom_pmf(x, n, p):
    x = np.asarray(x)
    xi = np.clip(x, 0, n)
    r = comb(n, xi) * np.power(p, xi) * np.power(1.0 - p, n - xi)
    return np.where((x >= 0) & (x <= n), r, 0.0)


def normal_pdf(x, m, s):
    z = (x - m) / s
    return np.exp(-0.5 * z * z) / (s * math.sqrt(2.0 * math.pi))


def input_fn(sl, val, x):
    """Value of an input layer at points x (B,) of its single variable -> (B, K)."""
    if isinstance(sl, L.CategoricalLayer):
        xi = np.asarray(x).astype(np.int64)
        if sl.logits is None:
            return param(sl.probs, val)[:, xi].T
        return np.exp(param(sl.logits, val))[:, xi].T
    if isinstance(sl, L.BinomialLayer):
        xi = np.asarray(x).astype(np.int64)
        if sl.logits is None:
            pr = param(sl.probs, val)
            return binom_pmf(xi[:, None], sl.total_count, pr[None, :])
        # logits: p = sigmoid(l), 1 - p = sigmoid(-l), both computed without cancellation
        lg = np.real(param(sl.logits, val))[None, :]
        n = sl.total_count
        xc = np.clip(xi, 0, n)[:, None]
        logp = xc * (-np.logaddexp(0.0, -lg)) + (n - xc) * (-np.logaddexp(0.0, lg))
        r = comb(n, xc) * np.exp(logp)
        return np.where((xi[:, None] >= 0) & (xi[:, None] <= n), r, 0.0)
    if isinstance(sl, L.GaussianLayer):
        r = normal_pdf(np.asarray(x)[:, None], param(sl.mean, val)[None], param(sl.stddev, val)[None])
        if sl.log_partition is not None:
            r = r * np.exp(param(sl.log_partition, val))[None]
        return r
    if isinstance(sl, L.EmbeddingLayer):
        xi = np.asarray(x).astype(np.int64)
        return param(sl.weight, val)[:, xi].T
    if isinstance(sl, L.PolynomialLayer):
        c = param(sl.coeff, val)
        xx = np.asarray(x)
        return sum(c[None, :, k] * xx[:, None] ** k for k in range(c.shape[1]))
    raise NotImplementedError(f"ref: input layer {type(sl).__name__}")


def input_abs_fn(sl, val, x, coef=False):
    """Magnitude bound of an input layer (same formula with absolute values).

    coef=True: a polynomial is bounded by sum |c_k| max(1, |x|)^k, i.e. never below the norm of its
    coefficient vector (products of polynomials are computed by FFT convolution, whose rounding error in
    EVERY coefficient is proportional to the norms of the operands' coefficient vectors)."""
    if isinstance(sl, L.PolynomialLayer):
        c = np.abs(param(sl.coeff, val))
        xx = np.abs(np.asarray(x))
        if coef:
            xx = np.maximum(xx, 1.0)
        return sum(c[None, :, k] * xx[:, None] ** k for k in range(c.shape[1]))
    return np.abs(input_fn(sl, val, x))


def input_integral(sl, val):
    """Exact integral / sum of an input layer over the domain of its variable -> (K,)."""
    if isinstance(sl, L.CategoricalLayer):
        if sl.logits is None:
            return param(sl.probs, val).sum(axis=1)
        return np.exp(param(sl.logits, val)).sum(axis=1)
    if isinstance(sl, L.BinomialLayer):
        return np.ones(sl.num_output_units)
    if isinstance(sl, L.GaussianLayer):
        if sl.log_partition is None:
            return np.ones(sl.num_output_units)
        return np.exp(param(sl.log_partition, val))
    if isinstance(sl, L.EmbeddingLayer):
        return param(sl.weight, val).sum(axis=1)
    raise NotImplementedError(f"ref: integral of {type(sl).__name__}")


# ----------------------------------------------------------------------------- circuits
def evaluate(sc, val, X, *, mag=False, override=None, layer_out=None):
    """Linear-space value of every output: (B, O, K) complex128/float64.

    mag=True: magnitude bound (absolute values of weights and input functions).
    override: dict symbolic input layer -> callable(B) -> (B, K) replacing the layer.
    layer_out: optional dict filled with every layer's value.
    """
    X = np.asarray(X)
    B = X.shape[0]
    out = {}
    for sl in sc.topological_ordering():
        ins = [out[i] for i in sc.layer_inputs(sl)]
        if override is not None and sl in override:
            y = override[sl](B)
            y = np.abs(y) if mag else y
        elif isinstance(sl, L.EvidenceLayer):
            obs = param(sl.observation, val)
            xo = np.broadcast_to(np.asarray(obs)[:1], (B,))
            y = input_abs_fn(sl.layer, val, xo, coef=mag == "coef") if mag else input_fn(sl.layer, val, xo)
        elif isinstance(sl, L.ConstantValueLayer):
            v = param(sl.value, val)
            v = np.exp(v) if sl.log_space else v
            v = np.abs(v) if mag else v
            y = np.broadcast_to(v[None, :], (B, v.shape[0]))
        elif isinstance(sl, L.InputLayer):
            x = X[:, _var(sl)]
            y = input_abs_fn(sl, val, x, coef=mag == "coef") if mag else input_fn(sl, val, x)
        elif isinstance(sl, L.SumLayer):
            W = param(sl.weight, val)
            W = np.abs(W) if mag else W
            y = np.concatenate(ins, axis=1) @ W.T
        elif isinstance(sl, L.HadamardLayer):
            y = ins[0]
            for z in ins[1:]:
                y = y * z
        elif isinstance(sl, L.KroneckerLayer):
            y = ins[0]
            for z in ins[1:]:
                y = (y[:, :, None] * z[:, None, :]).reshape(B, -1)
        else:
            raise NotImplementedError(f"ref: layer {type(sl).__name__}")
        out[sl] = y
    if layer_out is not None:
        layer_out.update(out)
    return np.stack([out[o] for o in sc.outputs], axis=1)


def evaluate_with_mag(sc, val, X, **kw):
    with np.errstate(all="ignore"):
        r = evaluate(sc, val, X, **kw)
        m = evaluate(sc, val, X, mag=True, **kw)
    return r, np.abs(m)


def depth(sc) -> int:
    d = {}
    for sl in sc.topological_ordering():
        d[sl] = 1 + max([d[i] for i in sc.layer_inputs(sl)], default=0)
    return max(d.values())


# ----------------------------------------------------------------------------- marginals
def marginal_bruteforce(sc, val, X, Z, domains, *, nodes=400, mag=False):
    """Sum / integrate the circuit over variables Z at rows X. domains: var -> ('d', n) | ('c', lo, hi).

    Discrete variables are enumerated, continuous ones integrated by composite Gauss-Legendre.
    """
    Z = sorted(Z)
    axes = []
    for v in Z:
        d = domains[v]
        if d[0] == "d":
            axes.append((np.arange(d[1], dtype=np.float64), np.ones(d[1])))
        else:
            lo, hi = d[1], d[2]
            pts, wts = _gauss_legendre(lo, hi, nodes)
            axes.append((pts, wts))
    X = np.asarray(X, dtype=np.float64)
    total = None
    grids = [a[0] for a in axes]
    wgrids = [a[1] for a in axes]
    for idx in itertools.product(*[range(len(g)) for g in grids]):
        Xz = X.copy()
        w = 1.0
        for v, g, wg, i in zip(Z, grids, wgrids, idx):
            Xz[:, v] = g[i]
            w *= wg[i]
        r = evaluate(sc, val, Xz, mag=mag) * w
        total = r if total is None else total + r
    return total


def _gauss_legendre(lo, hi, n, panels=8):
    per = max(2, n // panels)
    x, w = np.polynomial.legendre.leggauss(per)
    pts, wts = [], []
    edges = np.linspace(lo, hi, panels + 1)
    for a, b in zip(edges[:-1], edges[1:]):
        pts.append(0.5 * (b - a) * x + 0.5 * (a + b))
        wts.append(0.5 * (b - a) * w)
    return np.concatenate(pts), np.concatenate(wts)


def marginal_inputwise(sc, val, X, Z, *, mag=False):
    """Marginal of a smooth & decomposable circuit: replace each input layer over a variable
    in Z by its exact integral (valid because the circuit is multilinear in the input functions
    of each variable)."""
    Z = set(Z)
    override = {}
    for sl in sc.layers:
        if isinstance(sl, L.InputLayer) and not isinstance(sl, L.ConstantLayer) and (set(sl.scope) & Z):
            integ = input_integral(sl, val)
            override[sl] = (lambda B, integ=integ: np.broadcast_to(integ[None, :], (B, integ.shape[0])))
    return evaluate(sc, val, X, mag=mag, override=override)


# ----------------------------------------------------------------------------- derivatives
def derivative(sc, val, X, var, order, *, mag=False):
    """order-th partial derivative wrt `var` of a smooth & decomposable circuit with polynomial
    inputs: replace every polynomial input over `var` by its exact derivative polynomial."""
    override = {}
    for sl in sc.layers:
        if isinstance(sl, L.InputLayer) and not isinstance(sl, L.ConstantLayer) and set(sl.scope) == {var}:
            if not isinstance(sl, L.PolynomialLayer):
                raise NotImplementedError("derivative of non-polynomial input")
            c = param(sl.coeff, val)
            if c.shape[1] <= order:
                dc = np.zeros((c.shape[0], 1), dtype=c.dtype)
            else:
                dc = np.stack([Pn.polyder(row, m=order) for row in c])

            def f(B, dc=dc, v=var):
                xx = np.asarray(X)[:, v]
                cc = np.abs(dc) if mag else dc
                xa = np.abs(xx) if mag else xx
                return sum(cc[None, :, k] * xa[:, None] ** k for k in range(cc.shape[1]))

            override[sl] = f
    return evaluate(sc, val, X, mag=mag, override=override)
