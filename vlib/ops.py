"""Operator pipelines: spec language, application through cirkit.symbolic.functional (the code
under test) and *operand-based* oracles (never interpreting the derived circuit itself).

pipe := list of nodes, node i may reference nodes j < i:
   {"op": "base", "i": k}                          k-th base circuit spec of the case
 | {"op": "integrate", "a": j, "Z": [vars] | None}
 | {"op": "multiply", "a": j, "b": k}
 | {"op": "differentiate", "a": j, "order": n}
 | {"op": "conjugate", "a": j}
 | {"op": "evidence", "a": j, "obs": [[var, value], ...]}
 | {"op": "concatenate", "as": [j, ...]}
"""
from __future__ import annotations

import math

import numpy as np

from cirkit.symbolic import layers as L
from vlib import ref
from vlib.runner import HarnessError, Refused, Violation, sut
from vlib.spec import spec_scope


def refusal_types():
    from cirkit.symbolic.circuit import StructuralPropertyError
    from cirkit.symbolic.registry import OperatorNotFound, OperatorSignatureNotFound

    return (StructuralPropertyError, OperatorSignatureNotFound, OperatorNotFound, NotImplementedError,
            ValueError)


# ----------------------------------------------------------------------------- model of scopes
def node_scopes(pipe, base_specs):
    out = []
    for n in pipe:
        op = n["op"]
        if op == "base":
            s = frozenset(spec_scope(base_specs[n["i"]]))
        elif op == "integrate":
            a = out[n["a"]]
            s = a - (frozenset(n["Z"]) if n.get("Z") is not None else a)
        elif op in ("multiply", "differentiate", "conjugate"):
            s = out[n["a"]]
        elif op == "evidence":
            s = out[n["a"]] - frozenset(v for v, _ in n["obs"])
        elif op == "concatenate":
            s = frozenset().union(*[out[j] for j in n["as"]])
        else:
            raise HarnessError(f"unknown op {op}")
        out.append(s)
    return out


def node_num_outputs(pipe, base_specs):
    out = []
    sc = node_scopes(pipe, base_specs)
    for i, n in enumerate(pipe):
        op = n["op"]
        if op == "base":
            o = len(base_specs[n["i"]]["outputs"])
        elif op in ("integrate", "conjugate", "evidence"):
            o = out[n["a"]]
        elif op == "multiply":
            o = out[n["a"]] * out[n["b"]]
        elif op == "differentiate":
            o = out[n["a"]] * (len(sc[n["a"]]) + 1)
        elif op == "concatenate":
            o = sum(out[j] for j in n["as"])
        out.append(o)
    return out


def used_bases(pipe, i=None):
    """Indices of the base circuits the node i (default: last) depends on, in increasing order."""
    i = len(pipe) - 1 if i is None else i
    n = pipe[i]
    if n["op"] == "base":
        return [n["i"]]
    deps = n["as"] if n["op"] == "concatenate" else [n[k] for k in ("a", "b") if k in n]
    out = set()
    for j in deps:
        out.update(used_bases(pipe, j))
    return sorted(out)


# ----------------------------------------------------------------------------- apply (code under test)
def apply_node(n, scs, refuse=None, what=None):
    import cirkit.symbolic.functional as SF
    from cirkit.utils.scope import Scope

    op = n["op"]
    refuse = refusal_types() if refuse is None else refuse
    if op == "multiply":
        refuse = (Exception,)  # C04: multiply either returns the product or raises (any error)
    with sut(what or f"op-{op}", refuse=refuse):
        if op == "integrate":
            Z = n.get("Z")
            return SF.integrate(scs[n["a"]], scope=None if Z is None else Scope(Z))
        if op == "multiply":
            return SF.multiply(scs[n["a"]], scs[n["b"]])
        if op == "differentiate":
            return SF.differentiate(scs[n["a"]], order=n["order"])
        if op == "conjugate":
            return SF.conjugate(scs[n["a"]])
        if op == "evidence":
            return SF.evidence(scs[n["a"]], {int(v): x for v, x in n["obs"]})
        if op == "concatenate":
            return SF.concatenate([scs[j] for j in n["as"]])
    raise HarnessError(f"unknown op {op}")


def build_pipeline(pipe, base_scs, refuse=None):
    """-> list of symbolic circuits, one per node."""
    scs = []
    for n in pipe:
        if n["op"] == "base":
            scs.append(base_scs[n["i"]])
        else:
            scs.append(apply_node(n, scs, refuse=refuse))
    return scs


# ----------------------------------------------------------------------------- oracle
class PipeOracle:
    """Value of every pipeline node computed from the *base* circuits only (reference
    interpreter + definition of each operator)."""

    def __init__(self, pipe, base_specs, base_scs, vals, domains, max_grid=120000, max_rows=400000):
        self.pipe = pipe
        self.base_specs = base_specs
        self.base_scs = base_scs
        self.vals = vals
        self.domains = domains  # var -> ('d', n) | ('c',)
        self.scopes = node_scopes(pipe, base_specs)
        self.max_grid = max_grid
        self.max_rows = max_rows  # bound on batch x grid rows of one reference evaluation (nested integrals multiply)
        self._gauss = None
        self._nfactors = self._count_factors()

    # -- helpers
    def _count_factors(self):
        nf = []
        for n in self.pipe:
            op = n["op"]
            if op == "base":
                nf.append(1)
            elif op == "multiply":
                nf.append(nf[n["a"]] + nf[n["b"]])
            elif op == "concatenate":
                nf.append(max(nf[j] for j in n["as"]))
            else:
                nf.append(nf[n["a"]])
        return nf

    def _gauss_stats(self):
        """var -> (lo, hi, sigma_min) from the Gaussian layers of the base circuits."""
        if self._gauss is None:
            st = {}
            for sc in self.base_scs:
                for sl in sc.layers:
                    if isinstance(sl, L.GaussianLayer):
                        (v,) = tuple(sl.scope)
                        m = np.real(ref.param(sl.mean, self.vals))
                        s = np.real(ref.param(sl.stddev, self.vals))
                        lo, hi, sm = float(np.min(m - 9 * s)), float(np.max(m + 9 * s)), float(np.min(s))
                        if v in st:
                            lo, hi, sm = min(lo, st[v][0]), max(hi, st[v][1]), min(sm, st[v][2])
                        st[v] = (lo, hi, sm)
            self._gauss = st
        return self._gauss

    def grid(self, Z, nfactors):
        """-> (points (G, |Z|), weights (G,)) over the joint domain of Z, or None if too large."""
        axes = []
        total = 1
        for v in Z:
            d = self.domains[v]
            if d[0] == "d":
                pts = np.arange(d[1], dtype=np.float64)
                wts = np.ones(d[1])
            else:
                gs = self._gauss_stats()
                if v not in gs:
                    raise HarnessError(f"no Gaussian layer over continuous variable {v}")
                lo, hi, sm = gs[v]
                h = sm / (2.0 * math.sqrt(nfactors))
                n = int(math.ceil((hi - lo) / h)) + 1
                pts = lo + h * np.arange(n)
                wts = np.full(n, h)  # trapezoid on a rapidly decaying analytic integrand
            total *= len(pts)
            if total > self.max_grid:
                return None
            axes.append((pts, wts))
        if not axes:
            return np.zeros((1, 0)), np.ones(1)
        mesh = np.meshgrid(*[a[0] for a in axes], indexing="ij")
        wmesh = np.meshgrid(*[a[1] for a in axes], indexing="ij")
        P = np.stack([m.reshape(-1) for m in mesh], axis=1)
        W = np.prod(np.stack([m.reshape(-1) for m in wmesh], axis=1), axis=1)
        return P, W

    def degree(self, i, v):
        """Upper bound of the degree in x_v of node i (polynomial-input circuits)."""
        n = self.pipe[i]
        op = n["op"]
        if op == "base":
            d = 0
            for sl in self.base_scs[n["i"]].layers:
                if isinstance(sl, L.PolynomialLayer) and v in set(sl.scope):
                    d = max(d, sl.degree)
            return d
        if op == "multiply":
            return self.degree(n["a"], v) + self.degree(n["b"], v)
        if op == "concatenate":
            return max(self.degree(j, v) for j in n["as"])
        return self.degree(n["a"], v)

    # -- the oracle proper
    def value(self, i, X, mag=False):
        n = self.pipe[i]
        op = n["op"]
        X = np.asarray(X, dtype=np.float64)
        if op == "base":
            if mag and any(m["op"] == "multiply" for m in self.pipe):
                mag = "coef"  # polynomial products: bound relative to the coefficient norms (see ref.input_abs_fn)
            return ref.evaluate(self.base_scs[n["i"]], self.vals, X, mag=mag)
        if op == "conjugate":
            r = self.value(n["a"], X, mag)
            return r if mag else np.conj(r)
        if op == "evidence":
            X2 = X.copy()
            for v, x in n["obs"]:
                X2[:, int(v)] = x
            return self.value(n["a"], X2, mag)
        if op == "concatenate":
            return np.concatenate([self.value(j, X, mag) for j in n["as"]], axis=1)
        if op == "multiply":
            a = self.value(n["a"], X, mag)
            b = self.value(n["b"], X, mag)
            B, O1, K1 = a.shape
            _, O2, K2 = b.shape
            r = a[:, :, None, :, None] * b[:, None, :, None, :]
            return r.reshape(B, O1 * O2, K1 * K2)
        if op == "integrate":
            Z = sorted(self.scopes[n["a"]] if n.get("Z") is None else n["Z"])
            g = self.grid(Z, self._nfactors[n["a"]])
            if g is None:
                raise GridTooLarge()
            P, W = g
            B, G = X.shape[0], P.shape[0]
            if B * G > self.max_rows:
                raise GridTooLarge()
            Xg = np.repeat(X[:, None, :], G, axis=1)
            for c, v in enumerate(Z):
                Xg[:, :, v] = P[None, :, c]
            r = self.value(n["a"], Xg.reshape(B * G, -1), mag)
            r = r.reshape((B, G) + r.shape[1:])
            return np.tensordot(r, W, axes=([1], [0]))
        if op == "differentiate":
            return self._differentiate(i, X, mag)
        raise HarnessError(op)

    def _differentiate(self, i, X, mag):
        n = self.pipe[i]
        a, k = n["a"], n["order"]
        scope = sorted(self.scopes[a])
        base = self.value(a, X, mag)  # (B, O, K)
        B, O, K = base.shape
        per_var = []
        for v in scope:
            if self.pipe[a]["op"] == "base":
                d = ref.derivative(self.base_scs[self.pipe[a]["i"]], self.vals, X, v, k, mag=mag)
            else:
                d = self._interp_derivative(a, X, v, k, mag)
            per_var.append(d)
        blocks = []
        for o in range(O):
            for d in per_var:
                blocks.append(d[:, o])
            blocks.append(base[:, o])
        return np.stack(blocks, axis=1)

    def _interp_derivative(self, a, X, v, k, mag):
        """k-th derivative wrt x_v of node a (a polynomial of degree <= deg in x_v) by exact
        interpolation on deg+1 nodes."""
        from numpy.polynomial import polynomial as Pn

        deg = self.degree(a, v)
        m = deg + 1
        nodes = (np.linspace(0.5, 2.5, m) if mag else
                 (2.0 * np.cos(np.pi * (np.arange(m) + 0.5) / m) if m > 1 else np.zeros(1)))
        B = X.shape[0]
        Xg = np.repeat(X[:, None, :], m, axis=1)
        Xg[:, :, v] = nodes[None, :]
        r = self.value(a, Xg.reshape(B * m, -1), mag)
        r = r.reshape((B, m) + r.shape[1:])  # (B, m, O, K)
        V = np.vander(nodes, m, increasing=True)  # (m, m)
        coef = np.linalg.solve(V.astype(r.dtype), np.moveaxis(r, 1, 0).reshape(m, -1))  # (m, B*O*K)
        coef = coef.reshape((m, B) + r.shape[2:])
        if k > deg:
            return np.zeros((B,) + r.shape[2:], dtype=r.dtype)
        dc = Pn.polyder(coef, m=k, axis=0)  # (m-k, B, O, K)
        x = np.abs(X[:, v]) if mag else X[:, v]
        out = np.zeros((B,) + r.shape[2:], dtype=r.dtype)
        for p in range(dc.shape[0]):
            out = out + dc[p] * (x ** p)[:, None, None]
        if mag:
            # the interpolated derivative carries rounding error proportional to the size of the
            # interpolated values (not of the derivative, which may be exactly zero): keep the
            # bound above that noise floor
            return np.abs(out) + 1e-4 * np.max(np.abs(r), axis=1)
        return out

    def value_with_mag(self, i, X):
        with np.errstate(all="ignore"):
            r = self.value(i, X, mag=False)
            m = np.abs(self.value(i, X, mag=True))
        return r, m


class GridTooLarge(Exception):
    pass
