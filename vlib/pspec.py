"""Parameter-graph specs (PSPEC): JSON-able description <-> cirkit.symbolic.parameters.Parameter.

PS := {"op": "tensor", "shape": [...], "cx": bool, "pos": bool}
    | {"op": "const", "shape": [...], "value": number}
    | {"op": "ref", "shape": [...], "cx": bool, "pos": bool}      reference to a tensor compiled before
    | {"op": NAME, "args": {...}, "in": [PS, ...]}
"""
from __future__ import annotations

import numpy as np
from hypothesis import strategies as st

from cirkit.symbolic import parameters as P
from cirkit.symbolic.dtypes import DataType
from cirkit.symbolic.initializers import NormalInitializer

UNARY_ENTRY = {
    "exp": P.ExpParameter, "log": P.LogParameter, "square": P.SquareParameter,
    "softplus": P.SoftplusParameter, "sigmoid": P.SigmoidParameter, "conj": P.ConjugateParameter,
}


class Built:
    def __init__(self):
        self.nodes = []
        self.in_nodes = {}
        self.tensors = []  # (TensorParameter, spec)
        self.base_tensors = []  # tensors that must be compiled first (targets of references)


def _build(ps, b: Built):
    op = ps["op"]
    if op in ("tensor", "ref"):
        dtype = DataType.COMPLEX if ps.get("cx") else DataType.REAL
        t = P.TensorParameter(*ps["shape"], initializer=NormalInitializer(), dtype=dtype)
        t._vspec = ps
        b.tensors.append((t, ps))
        if op == "ref":
            b.base_tensors.append(t)
            n = P.ReferenceParameter(t)
        else:
            n = t
        b.nodes.append(n)
        return n
    if op == "const":
        n = P.ConstantParameter(*ps["shape"], value=ps["value"])
        b.nodes.append(n)
        return n
    ins = [_build(c, b) for c in ps["in"]]
    shapes = [i.shape for i in ins]
    a = ps.get("args", {})
    if op in UNARY_ENTRY:
        n = UNARY_ENTRY[op](shapes[0])
    elif op == "ssig":
        n = P.ScaledSigmoidParameter(shapes[0], vmin=a["vmin"], vmax=a["vmax"])
    elif op == "clamp":
        n = P.ClampParameter(shapes[0], vmin=a.get("vmin"), vmax=a.get("vmax"))
    elif op == "softmax":
        n = P.SoftmaxParameter(shapes[0], axis=a["axis"])
    elif op == "logsoftmax":
        n = P.LogSoftmaxParameter(shapes[0], axis=a["axis"])
    elif op == "rsum":
        n = P.ReduceSumParameter(shapes[0], axis=a["axis"])
    elif op == "rprod":
        n = P.ReduceProductParameter(shapes[0], axis=a["axis"])
    elif op == "rlse":
        n = P.ReduceLSEParameter(shapes[0], axis=a["axis"])
    elif op == "index":
        n = P.IndexParameter(shapes[0], indices=list(a["indices"]), axis=a["axis"])
    elif op == "mix":
        n = P.MixingWeightParameter(shapes[0])
    elif op == "sum":
        n = P.SumParameter(*shapes)
    elif op == "had":
        n = P.HadamardParameter(*shapes)
    elif op == "kron":
        n = P.KroneckerParameter(*shapes)
    elif op == "oprod":
        n = P.OuterProductParameter(*shapes, axis=a["axis"])
    elif op == "osum":
        n = P.OuterSumParameter(*shapes, axis=a["axis"])
    elif op == "gmean":
        n = P.GaussianProductMean(*shapes)
    elif op == "gstd":
        n = P.GaussianProductStddev(*shapes)
    elif op == "glp":
        n = P.GaussianProductLogPartition(*shapes)
    elif op == "pprod":
        n = P.PolynomialProduct(*shapes)
    elif op == "pdiff":
        n = P.PolynomialDifferential(shapes[0], order=a["order"])
    else:
        raise ValueError(f"unknown op {op}")
    b.nodes.append(n)
    b.in_nodes[n] = ins
    return n


def build(ps):
    """-> (Parameter, Built)"""
    b = Built()
    out = _build(ps, b)
    return P.Parameter(b.nodes, b.in_nodes, [out]), b


def draw_values(built: Built, seed: int, profile: str):
    rng = np.random.default_rng(seed)
    vals = {}
    for t, ps in built.tensors:
        shape = t.shape
        if profile == "ints":
            re = rng.integers(-2, 3, size=shape).astype(np.float64)
            im = rng.integers(-2, 3, size=shape).astype(np.float64)
        else:
            re = rng.normal(size=shape)
            im = rng.normal(size=shape)
        if ps.get("pos"):
            re = np.abs(re) + 0.3
            im = im * 0.0
        vals[t] = (re + 1j * im) if ps.get("cx") else re
    return vals


# ----------------------------------------------------------------------------- generator
def _factor_pairs(n):
    return [(a, n // a) for a in range(1, n + 1) if n % a == 0]


class PGen:
    """Shape-directed, constructive generator: every produced PS has exactly the requested shape."""

    def __init__(self, draw, *, allow_cx=True, allow_ref=True, max_dim=4):
        self.draw = draw
        self.allow_cx = allow_cx
        self.allow_ref = allow_ref
        self.max_dim = max_dim

    def leaf(self, shape, pos, cx):
        d = self.draw
        k = d(st.integers(0, 9))
        if k == 0 and not cx:
            v = d(st.sampled_from([0.5, 1.0, 2.0, 3.0])) if pos else d(st.sampled_from([0.0, -1.5, 1.0, 2.0, 0.25]))
            return {"op": "const", "shape": list(shape), "value": v}
        op = "ref" if (self.allow_ref and k in (1, 2)) else "tensor"
        return {"op": op, "shape": list(shape), "cx": bool(cx), "pos": bool(pos)}

    def gen(self, shape, depth, pos=False, cx=False):
        """pos: output must be strictly positive real; cx: output may be complex."""
        d = self.draw
        shape = tuple(shape)
        if depth <= 0 or d(st.integers(0, 5)) == 0:
            return self.leaf(shape, pos, cx)
        rank = len(shape)
        opts = ["exp", "softplus", "sigmoid", "ssig", "softmax", "clamp", "sum", "had", "rsum", "rprod",
                "index", "square"]
        if not pos:
            opts += ["log", "logsoftmax", "rlse", "conj", "osum-maybe"]
            # composites that the optimiser rewrites (log o softmax -> log-softmax; reduce-sum o outer-product
            # -> einsum): generated on purpose, with every axis combination
            opts += ["log-softmax-pair", "log-softmax-pair"]
        if rank <= 2:
            opts += ["rsum-oprod-pair", "rsum-oprod-pair"]
        opts += ["kron", "oprod"]
        if not pos:
            opts += ["osum"]
        if rank == 2 and shape[1] % shape[0] == 0 and not pos:
            opts += ["mix", "mix"]
        if rank == 1:
            opts += ["gstd", "gstd"]
            if not pos:
                opts += ["gmean", "glp", "gmean", "glp"]
        if rank == 2 and not pos:
            opts += ["pprod", "pdiff", "pprod", "pdiff"]
        opts = [o for o in opts if o != "osum-maybe"]
        if cx:
            # complex graphs: only operators defined on complex tensors, and every leaf complex
            # (real and complex sub-graphs are not mixed in one fold set: known finding F19)
            opts = [o for o in opts if o in ("exp", "square", "conj", "sum", "had", "kron", "oprod", "osum",
                                             "rsum", "rprod", "index", "mix", "pprod", "pdiff", "rsum-oprod-pair")]
        op = d(st.sampled_from(opts))
        g = lambda s, p=False, c=cx: self.gen(s, depth - 1, pos=p, cx=c)  # noqa: E731
        ax = d(st.integers(-rank, rank - 1))
        axn = ax % rank
        if op == "log-softmax-pair":
            return {"op": "log", "in": [{"op": "softmax", "args": {"axis": ax}, "in": [g(shape, False, False)]}]}
        if op == "rsum-oprod-pair":
            # child of the reduction has rank+1 dims; the outer product is taken along a drawn axis of it
            r2 = rank + 1
            a_red = d(st.integers(-r2, r2 - 1))
            child = list(shape)
            child.insert(a_red % r2, d(st.sampled_from([1, 2, 4, 6])))
            a_out = d(st.integers(-r2, r2 - 1))
            fa, fb = d(st.sampled_from(_factor_pairs(child[a_out % r2])))
            s1, s2 = list(child), list(child)
            s1[a_out % r2], s2[a_out % r2] = fa, fb
            return {"op": "rsum", "args": {"axis": a_red},
                    "in": [{"op": "oprod", "args": {"axis": a_out}, "in": [g(s1, pos), g(s2, pos)]}]}
        if op in ("exp",):
            return {"op": op, "in": [g(shape, False, False if pos else cx)]}
        if op == "log":
            return {"op": "log", "in": [g(shape, True, False)]}
        if op in ("softplus", "sigmoid"):
            return {"op": op, "in": [g(shape, False, False)]}
        if op == "square":
            return {"op": op, "in": [g(shape, pos, False if pos else cx)]}
        if op == "conj":
            return {"op": op, "in": [g(shape, False, cx)]}
        if op == "ssig":
            vmin = d(st.sampled_from([0.0, 0.1, 1.0])) if not pos else d(st.sampled_from([0.1, 1.0]))
            return {"op": "ssig", "args": {"vmin": vmin, "vmax": vmin + d(st.sampled_from([0.5, 2.0]))},
                    "in": [g(shape, False, False)]}
        if op == "clamp":
            mode = d(st.integers(0, 2))
            lo = d(st.sampled_from([0.1, 0.5])) if pos else d(st.sampled_from([-0.5, 0.0, 0.3]))
            args = {"vmin": lo, "vmax": lo + 1.0} if mode == 0 else ({"vmin": lo, "vmax": None} if mode == 1 or pos
                                                                      else {"vmin": None, "vmax": lo})
            return {"op": "clamp", "args": args, "in": [g(shape, False, False)]}
        if op in ("softmax", "logsoftmax"):
            return {"op": op, "args": {"axis": ax}, "in": [g(shape, False, False)]}
        if op in ("sum", "had"):
            return {"op": op, "in": [g(shape, pos), g(shape, pos)]}
        if op in ("rsum", "rprod", "rlse"):
            if rank >= 3:
                return self.leaf(shape, pos, cx)
            r2 = rank + 1
            a2 = d(st.integers(-r2, r2 - 1))
            m = d(st.integers(1, self.max_dim))
            child = list(shape)
            child.insert(a2 % r2, m)
            return {"op": op, "args": {"axis": a2}, "in": [g(child, pos, False if op == "rlse" else cx)]}
        if op == "index":
            m = d(st.integers(1, self.max_dim))
            child = list(shape)
            child[axn] = m
            idx = d(st.lists(st.integers(0, m - 1), min_size=shape[axn], max_size=shape[axn]))
            return {"op": "index", "args": {"axis": ax, "indices": idx}, "in": [g(child, pos)]}
        if op == "mix":
            K = shape[0]
            return {"op": "mix", "in": [g((K, shape[1] // K), pos)]}
        if op == "kron":
            f = [d(st.sampled_from(_factor_pairs(s))) for s in shape]
            return {"op": "kron", "in": [g([a for a, _ in f], pos), g([b for _, b in f], pos)]}
        if op in ("oprod", "osum"):
            a, bb = d(st.sampled_from(_factor_pairs(shape[axn])))
            s1, s2 = list(shape), list(shape)
            s1[axn], s2[axn] = a, bb
            return {"op": op, "args": {"axis": ax}, "in": [g(s1, pos), g(s2, pos)]}
        if op in ("gmean", "glp"):
            a, bb = d(st.sampled_from(_factor_pairs(shape[0])))
            return {"op": op, "in": [g((a,), False, False), g((a,), True, False),
                                     g((bb,), False, False), g((bb,), True, False)]}
        if op == "gstd":
            a, bb = d(st.sampled_from(_factor_pairs(shape[0])))
            return {"op": op, "in": [g((a,), True, False), g((bb,), True, False)]}
        if op == "pprod":
            a, bb = d(st.sampled_from(_factor_pairs(shape[0])))
            d1 = d(st.integers(1, shape[1]))
            d2 = shape[1] + 1 - d1
            return {"op": "pprod", "in": [g((a, d1)), g((bb, d2))]}
        if op == "pdiff":
            order = d(st.integers(1, 3))
            if shape[1] == 1 and d(st.booleans()):
                din = d(st.integers(1, order))  # degree below the order -> constant zero
            else:
                din = shape[1] + order
            return {"op": "pdiff", "args": {"order": order}, "in": [g((shape[0], din))]}
        raise ValueError(op)


def count_ops(ps):
    if "in" not in ps:
        return 0
    return 1 + sum(count_ops(c) for c in ps["in"])


def op_names(ps, acc=None):
    acc = set() if acc is None else acc
    acc.add(ps["op"])
    for c in ps.get("in", []):
        op_names(c, acc)
    return acc


def nondefault_axis(ps):
    a = ps.get("args", {})
    if "axis" in a and a["axis"] not in (-1,):
        return True
    return any(nondefault_axis(c) for c in ps.get("in", []))
