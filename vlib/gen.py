"""Hypothesis strategies producing circuit specs (see vlib/spec.py for the spec language)."""
from __future__ import annotations

from hypothesis import strategies as st

from vlib.spec import pk

NONNEG_KINDS = ["softmax", "exp", "softplus", "sigmoid", "clamp", "square", "logsoftmax-exp"]
REAL_KINDS = ["plain", "plain", "softmax", "exp", "softplus", "sigmoid", "ssig", "clamp", "square"]
NORM_KINDS = ["softmax", "logsoftmax-exp"]

DISCRETE_TYPES = ("cat", "catl", "bin", "binl", "emb")
FAMILY = {"cat": "cat", "catl": "cat", "bin": "bin", "binl": "bin", "emb": "emb", "gau": "gau", "pol": "pol"}
CONT_TYPES = ("gau", "pol")


def set_partition(draw, items, min_blocks=2, max_blocks=3):
    """A random partition of `items` into min..max non-empty blocks (constructive)."""
    items = list(items)
    nb = draw(st.integers(min_blocks, min(max_blocks, len(items))))
    perm = draw(st.permutations(items))
    # choose nb-1 cut points among len-1 positions
    cuts = sorted(draw(st.lists(st.integers(1, len(items) - 1), min_size=nb - 1, max_size=nb - 1,
                                unique=True)))
    blocks = [sorted(perm[a:b]) for a, b in zip([0] + cuts, cuts + [len(items)])]
    return blocks


def draw_vtree(draw, scope, max_blocks=3):
    """scope(tuple) -> blocks for every internal scope (one partition per scope)."""
    vt = {}

    def rec(sc):
        if len(sc) <= 1:
            return
        blocks = set_partition(draw, sc, 2, max_blocks)
        vt[tuple(sc)] = [tuple(b) for b in blocks]
        for b in blocks:
            rec(tuple(b))

    rec(tuple(sorted(scope)))
    return vt


class SDBuilder:
    """Builds a smooth & decomposable circuit spec by construction."""

    def __init__(self, draw, *, input_types, nonneg=False, cx=False, max_K=3, allow_kron=True,
                 max_parts=2, share=True, vtree=None, domains=None, sum_kinds=None,
                 leaf_sum_p=0.3, mixing=True, kron_max_out=16, ncat_max=3, deg_max=2,
                 gauss_lp=True, emb_kinds=None, learn_mix=False, norm_inputs=False, decisions=None,
                 max_reps=1, leaf_kinds=None, cat_kinds=None):
        self.draw = draw
        self.cat_kinds = cat_kinds or NORM_KINDS  # parameterisation of categorical probs ("simplex0": normalised with exact zeros)
        self.input_types = tuple(input_types)
        self.nonneg = nonneg
        self.cx = cx
        self.max_K = max_K
        self.allow_kron = allow_kron
        self.max_parts = max_parts
        self.share = share
        self.vtree = vtree
        self.layers = []
        self._lscope, self._lunits, self.pool = [], [], {}
        self.memo = {}
        self.domains = domains if domains is not None else {}
        self.sum_kinds = sum_kinds or (NONNEG_KINDS if nonneg else REAL_KINDS)
        self.leaf_sum_p = leaf_sum_p
        self.mixing = mixing
        self.kron_max_out = kron_max_out
        self.ncat_max = ncat_max
        self.deg_max = deg_max
        self.gauss_lp = gauss_lp
        self.emb_kinds = emb_kinds
        self.norm_inputs = norm_inputs
        self.part_memo = {}
        # decisions: dict shared between builders so that several circuits get the same skeleton
        # (layer kinds per scope); None = every choice drawn independently
        self.decisions = decisions
        self.max_reps = max_reps
        self.leaf_kinds = leaf_kinds

    def decide(self, key, name, strat):
        if self.decisions is None:
            return self.draw(strat)
        dec = self.decisions.setdefault(str(key), {})
        if name not in dec:
            dec[name] = self.draw(strat)
        return dec[name]

    # -- helpers
    def add(self, L):
        self.layers.append(L)
        i = len(self.layers) - 1
        # pool of layers by (scope, units): any of them can be reused wherever such a layer is needed
        if "in" in L:
            sc = tuple(sorted(set().union(*[self._lscope[j] for j in L["in"]])))
            if L["t"] == "sum":
                un = L["K"]
            elif L["t"] == "had":
                un = self._lunits[L["in"][0]]
            else:
                un = self._lunits[L["in"][0]] ** len(L["in"])
        else:
            sc = () if L["t"] == "const" else (L["v"],)
            un = L["K"]
        self._lscope.append(sc)
        self._lunits.append(un)
        self.pool.setdefault((sc, un), []).append(i)
        return i

    def units(self, i):
        from vlib.spec import spec_units

        return spec_units({"layers": self.layers})[i]

    def wkind(self, allow_cx=True):
        d = self.draw
        k = d(st.sampled_from(self.sum_kinds))
        p = pk(k)
        if self.cx and allow_cx and k == "plain" and d(st.booleans()):
            p["cx"] = True
        return p

    def domain(self, v):
        if v not in self.domains:
            d = self.draw
            types = self.input_types
            has_d = any(t in DISCRETE_TYPES for t in types)
            has_c = any(t in CONT_TYPES for t in types)
            if has_d and (not has_c or d(st.booleans())):
                self.domains[v] = ("d", d(st.integers(2, self.ncat_max)))
            else:
                self.domains[v] = ("c",)
        return self.domains[v]

    def leaf(self, v, K):
        d = self.draw
        dom = self.domain(v)
        if dom[0] == "d":
            cands = [t for t in self.input_types if t in DISCRETE_TYPES]
        else:
            cands = [t for t in self.input_types if t in CONT_TYPES]
        if self.decisions is not None:
            fams = sorted({FAMILY[t] for t in cands})
            fam = self.decide(("leaf", v), "family", st.sampled_from(fams))
            cands = [t for t in cands if FAMILY[t] == fam]
        t = d(st.sampled_from(cands))
        n = dom[1] if dom[0] == "d" else None
        if t == "cat":
            ck = d(st.sampled_from(self.cat_kinds))
            # "simplex0": a plain tensor whose written values are normalised rows WITH exact zeros
            L = {"t": "cat", "v": v, "K": K, "n": n,
                 "p": pk("plain", role="simplex0") if ck == "simplex0" else pk(ck)}
        elif t == "catl":
            L = {"t": "catl", "v": v, "K": K, "n": n,
                 "p": pk("plain")}
        elif t == "bin":
            # bounded pre-activation: 1 - sigmoid(t) is ill-conditioned in t for large t, and torch /
            # numpy sigmoids may differ by one ulp
            L = {"t": "bin", "v": v, "K": K, "n": n - 1, "p": pk("sigmoid", role="bounded")}
        elif t == "binl":
            L = {"t": "binl", "v": v, "K": K, "n": n - 1, "p": pk("plain")}
        elif t == "emb":
            # "plain0": a plain tensor written with non-negative values, a fifth of them EXACTLY zero (the ordinary
            # way to write a hard embedding; -inf in a log-space semiring)
            # (opt-in through emb_kinds: checks that move parameters - perturbations, optimiser steps, resets - would
            # push such a tensor below zero, outside the domain of the lse-sum semiring)
            kinds = self.emb_kinds or (NONNEG_KINDS if self.nonneg else REAL_KINDS)
            ek = d(st.sampled_from(kinds))
            p = pk("plain", role="nonneg0") if ek == "plain0" else pk(ek)
            if self.cx and p["k"] == "plain" and d(st.booleans()):
                p["cx"] = True
            L = {"t": "emb", "v": v, "K": K, "n": n, "p": p}
        elif t == "gau":
            L = {"t": "gau", "v": v, "K": K, "m": pk("plain", role="bounded"),
                 "s": pk(d(st.sampled_from(["ssig", "ssig", "softplus-shift"]))), "lp": None}
            if L["s"]["k"] == "softplus-shift":
                L["s"] = pk("ssig", vmin=0.5, vmax=2.0)
            if self.gauss_lp and d(st.integers(0, 3)) == 0:
                L["lp"] = pk("plain", role="bounded")
        elif t == "pol":
            p = pk("plain")
            if self.cx and d(st.booleans()):
                p["cx"] = True
            L = {"t": "pol", "v": v, "K": K, "n": d(st.integers(0, self.deg_max)), "p": p}
        else:
            raise ValueError(t)
        return self.add(L)

    def sum_over(self, ins, Ko):
        d = self.draw
        H = len(ins)
        Ki = self.units(ins[0])
        p = self.wkind()
        if H > 1 and self.mixing and Ki == Ko and d(st.booleans()):
            p = dict(p, k="mix:" + p["k"])
            if p["k"] in ("mix:softmax", "mix:logsoftmax-exp"):
                p["axis"] = -1
        return self.add({"t": "sum", "in": list(ins), "K": Ko, "p": p})

    def partitions(self, scope):
        d = self.draw
        if self.vtree is not None:
            return [list(self.vtree[tuple(scope)])]
        nparts = d(st.integers(1, self.max_parts))
        return [set_partition(d, scope, 2, 3) for _ in range(nparts)]

    def build(self, scope, K):
        d = self.draw
        scope = tuple(sorted(scope))
        key = (scope, K)
        if self.share and key in self.memo and d(st.integers(0, 9)) < 4:
            if self.decisions is None and len(self.pool.get(key, ())) > 1 and d(st.booleans()):
                # any layer with this scope and unit count, e.g. the product under an existing sum
                # (a layer feeding both a sum and another layer)
                return d(st.sampled_from(self.pool[key]))
            return self.memo[key]
        if len(scope) == 1:
            if self.decisions is not None:
                if self.decide(scope, "leaf_sum", st.booleans()):
                    # a (mixture of) input layer(s) with their own unit count below a sum layer: the unit count
                    # and the number of mixed input layers are free per circuit and per variable
                    Kl = d(st.integers(1, self.max_K)) if d(st.booleans()) else K
                    nl = d(st.integers(1, self.max_reps))
                    l = self.sum_over([self.leaf(scope[0], Kl) for _ in range(nl)], K)
                else:
                    l = self.leaf(scope[0], K)
            elif d(st.floats(0, 1)) < self.leaf_sum_p:
                Kl = d(st.integers(1, self.max_K)) if d(st.integers(0, 2)) == 0 else K
                nl = 2 if d(st.integers(0, 3)) == 0 else 1
                l = self.sum_over([self.leaf(scope[0], Kl) for _ in range(nl)], K)
            else:
                l = self.leaf(scope[0], K)
        elif self.decisions is not None:
            l = self._build_skeleton(scope, K)
        else:
            prods = []
            for blocks in self.partitions(scope):
                nb = len(blocks)
                order = d(st.permutations(list(range(nb)))) if self.vtree is not None else list(range(nb))
                blocks = [blocks[i] for i in order]
                use_kron = self.allow_kron and d(st.integers(0, 2)) == 0
                if use_kron:
                    kin_max = max(1, int(self.kron_max_out ** (1.0 / nb) + 1e-9))
                    Kin = d(st.integers(1, min(self.max_K, kin_max)))
                    ch = [self.build(b, Kin) for b in blocks]
                    p = self.add({"t": "kro", "in": ch})
                    p = self.sum_over([p], K)
                else:
                    with_sum = d(st.booleans())
                    Kp = d(st.integers(1, self.max_K)) if with_sum and d(st.integers(0, 2)) == 0 else K
                    ch = [self.build(b, Kp) for b in blocks]
                    p = self.add({"t": "had", "in": ch})
                    if with_sum:
                        ph = p
                        p = self.sum_over([p], K)
                        if Kp == K and self.share and d(st.integers(0, 3)) == 0:
                            prods.append(ph)  # the product feeds both its own sum and the sum above
                prods.append(p)
            if len(prods) == 1:
                l = prods[0]
                if self.layers[l]["t"] == "had" and d(st.booleans()):
                    l = self.sum_over([l], K)
            else:
                l = self.sum_over(prods, K)
        self.memo[key] = l
        return l


    def _build_skeleton(self, scope, K):
        """Inner region in skeleton mode: one partition (vtree), layer kinds fixed by the shared
        decisions (product type, sum after product, top sum); the number of repetitions of the
        partition (= arity of the top sum), unit counts and parameterisations are free."""
        d = self.draw
        (blocks,) = self.partitions(scope)
        nb = len(blocks)
        use_kron = self.allow_kron and self.decide(scope, "kron", st.integers(0, 2)) == 0
        sum_after = True if use_kron else self.decide(scope, "sum_after", st.booleans())
        top = self.decide(scope, "top", st.booleans())
        nrep = d(st.integers(1, self.max_reps)) if top else 1
        Kp = d(st.integers(1, self.max_K)) if (sum_after or top) and d(st.booleans()) else K
        prods = []
        for _ in range(nrep):
            order = d(st.permutations(list(range(nb))))
            bl = [blocks[i] for i in order]
            if use_kron:
                kin_max = max(1, int(self.kron_max_out ** (1.0 / nb) + 1e-9))
                Kin = d(st.integers(1, min(self.max_K, kin_max)))
                p = self.add({"t": "kro", "in": [self.build(b, Kin) for b in bl]})
            else:
                # unit counts may differ from region to region: whenever a sum layer sits above the product,
                # the product (and the regions below it) may use another number of units
                p = self.add({"t": "had", "in": [self.build(b, Kp) for b in bl]})
            if sum_after:
                p = self.sum_over([p], K)
            prods.append(p)
        if top:
            return self.sum_over(prods, K)
        return prods[0]


ALL_INPUTS = ("cat", "catl", "bin", "binl", "emb", "gau", "pol")
NONNEG_INPUTS = ("cat", "catl", "bin", "binl", "gau", "emb")


def var_ids(draw, nv, max_id=24, p_identity=0.4):
    if draw(st.floats(0, 1)) < p_identity:
        return list(range(nv))
    return draw(st.lists(st.integers(0, max_id), min_size=nv, max_size=nv, unique=True))


@st.composite
def sd_circuit(draw, *, max_vars=4, min_vars=1, input_types=ALL_INPUTS, nonneg=False, cx=False, max_K=3,
               allow_kron=True, max_parts=2, multi_out=True, structured=False, renumber=True,
               max_id=24, with_const=False, same_scope_outputs=False, p_identity=0.4, **kw):
    """A smooth & decomposable circuit spec (DAG with shared sub-circuits, 1..3 outputs)."""
    nv = draw(st.integers(min_vars, max_vars))
    ids = var_ids(draw, nv, max_id, p_identity) if renumber else list(range(nv))
    K = draw(st.integers(1, max_K))
    vt = draw_vtree(draw, ids) if structured else None
    b = SDBuilder(draw, input_types=input_types, nonneg=nonneg, cx=cx, max_K=max_K,
                  allow_kron=allow_kron, max_parts=max_parts, vtree=vt, **kw)
    root = b.build(ids, K)
    if with_const and draw(st.integers(0, 3)) == 0:
        # multiply the root by a constant (empty-scope) layer
        c = b.add({"t": "const", "K": b.units(root), "log": draw(st.booleans()),
                   "p": pk("plain")})
        if nonneg and not b.layers[c]["log"]:
            b.layers[c]["p"] = pk("exp")
        root = b.add({"t": "had", "in": [root, c]})
    outs = [root]
    if multi_out:
        from vlib.spec import spec_units

        from vlib.spec import spec_scopes

        units = spec_units({"layers": b.layers})
        scopes = spec_scopes({"layers": b.layers})
        Kr = units[root]
        n_extra = draw(st.integers(0, 2))
        for _ in range(n_extra):
            cands = [i for i, L in enumerate(b.layers) if units[i] == Kr and i not in outs
                     and (not same_scope_outputs or scopes[i] == scopes[root])]
            if not cands:
                break
            # prefer inner layers (outputs that feed other layers)
            outs.append(draw(st.sampled_from(cands)))
        if len(outs) > 1:
            outs = draw(st.permutations(outs))
    return {"layers": b.layers, "outputs": list(outs), "_domains": {str(k): list(v) for k, v in b.domains.items()}}


def domains_of(spec):
    return {int(k): tuple(v) for k, v in spec.get("_domains", {}).items()}


def draw_inputs_rng(spec, seed, B, D=None):
    """Deterministic in-domain input batch (B, D) from an integer seed (drawn by Hypothesis)."""
    import numpy as np

    from vlib.spec import spec_scope, var_domains

    dom = domains_of(spec) or var_domains(spec)
    scope = sorted(spec_scope(spec) | set(dom.keys()))
    Dn = (max(scope) + 1) if scope else 1
    if D is not None:
        Dn = max(D, Dn)
    rng = np.random.default_rng(seed)
    X = np.zeros((B, Dn), dtype=np.float64)
    for v in scope:
        d = dom.get(v, ("c",))
        if d[0] == "d":
            X[:, v] = rng.integers(0, d[1], size=B)
        else:
            X[:, v] = np.round(rng.normal(size=B) * 1.5, 3)
    return X


# ----------------------------------------------------------------------------- G-any
@st.composite
def any_circuit(draw, *, max_vars=4, max_layers=10, max_id=24, renumber=True, leaf="emb"):
    """Unconstrained layer DAG: sums over different scopes, overlapping products, constants.
    Unit counts / arities are kept consistent (Circuit() rejects those by documented ValueError)."""
    nv = draw(st.integers(1, max_vars))
    ids = var_ids(draw, nv, max_id) if renumber else list(range(nv))
    K = draw(st.integers(1, 2))
    layers = []
    units = []
    n_in = draw(st.integers(1, nv + 2))
    for _ in range(n_in):
        if draw(st.integers(0, 7)) == 0:
            layers.append({"t": "const", "K": K, "log": False, "p": pk("plain")})
        else:
            v = draw(st.sampled_from(ids))
            if leaf == "pol":
                layers.append({"t": "pol", "v": v, "K": K, "n": 1, "p": pk("plain")})
            elif leaf == "cat":
                layers.append({"t": "cat", "v": v, "K": K, "n": 2, "p": pk("softmax")})
            else:
                layers.append({"t": "emb", "v": v, "K": K, "n": 2, "p": pk("plain")})
        units.append(K)
    n_inner = draw(st.integers(1, max_layers))
    for _ in range(n_inner):
        t = draw(st.sampled_from(["sum", "had", "had", "kro"]))
        u = draw(st.sampled_from(sorted(set(units))))
        cands = [i for i, uu in enumerate(units) if uu == u]
        if t == "sum":
            ar = draw(st.integers(1, 3))
        else:
            ar = draw(st.integers(2, 3))
        if t == "kro" and u ** ar > 16:
            t = "had"
        ins = [draw(st.sampled_from(cands)) for _ in range(ar)]
        if t == "sum":
            Ko = draw(st.sampled_from([u, K]))
            layers.append({"t": "sum", "in": ins, "K": Ko, "p": pk("plain")})
            units.append(Ko)
        elif t == "had":
            layers.append({"t": "had", "in": ins})
            units.append(u)
        else:
            layers.append({"t": "kro", "in": ins})
            units.append(u ** ar)
    # outputs: 1..2 layers of equal unit count, the last layer always included
    last = len(layers) - 1
    outs = [last]
    cands = [i for i, uu in enumerate(units) if uu == units[last] and i != last]
    if cands and draw(st.booleans()):
        outs.append(draw(st.sampled_from(cands)))
    from vlib.spec import prune

    return prune({"layers": layers, "outputs": outs})


@st.composite
def sd_pair(draw, *, n=2, max_vars=4, min_vars=1, input_types=ALL_INPUTS, nonneg=False, cx=False, max_K=3,
            allow_kron=True, renumber=True, max_id=24, same_vtree=True, multi_out=True, skeleton=False,
            max_reps=2, same_K=False, **kw):
    """n circuits over the same variables, built on the same vtree (compatible by construction
    when same_vtree) with independent unit counts / sum arities / parameterisations.
    skeleton=True additionally shares the layer kinds per scope (product type, sums above the
    product, input family per variable), which is what the layer-wise product rules need; the
    arity of the top sum of each region (repetitions of the partition), unit counts, input
    parameterisations and the number of outputs stay independent."""
    nv = draw(st.integers(min_vars, max_vars))
    ids = var_ids(draw, nv, max_id) if renumber else list(range(nv))
    vt = draw_vtree(draw, ids)
    domains = {}
    decisions = {} if skeleton else None
    specs = []
    for j in range(n):
        vtj = vt if (same_vtree or j == 0) else draw_vtree(draw, ids)
        K = draw(st.integers(1, max_K)) if not (same_K and j > 0) else K
        b = SDBuilder(draw, input_types=input_types, nonneg=nonneg, cx=cx, max_K=max_K,
                      allow_kron=allow_kron, vtree=vtj, domains=domains, decisions=decisions,
                      max_reps=max_reps if skeleton else 1, **kw)
        root = b.build(ids, K)
        outs = [root]
        if multi_out and draw(st.integers(0, 3)) == 0:
            if skeleton:
                b.memo.pop((tuple(sorted(ids)), K), None)
                r2 = b.build(ids, K)
                if r2 != root:
                    outs.append(r2)
            else:
                from vlib.spec import spec_scopes, spec_units

                units = spec_units({"layers": b.layers})
                scopes = spec_scopes({"layers": b.layers})
                cands = [i for i in range(len(b.layers)) if units[i] == units[root] and i != root
                         and scopes[i] == scopes[root]]
                if cands:
                    outs.append(draw(st.sampled_from(cands)))
        specs.append({"layers": b.layers, "outputs": outs})
    for s in specs:
        s["_domains"] = {str(k): list(v) for k, v in domains.items()}
    return specs


def unlearn(draw, spec, p=6):
    """Mark a drawn subset of the tensors of a circuit spec as non-learnable (frozen parameters)."""
    for L in spec["layers"]:
        for k, v in L.items():
            if isinstance(v, dict) and "k" in v and v["k"] != "constv" and draw(st.integers(0, p - 1)) == 0:
                v["learn"] = False
    return spec
