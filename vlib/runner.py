"""Runner: seeds, sharding, collect-then-shrink, buckets, replay, evidence, exit codes.

Exit codes: 0 = property held on everything explored (possibly KNOWN-FINDING lines),
            1 = at least one unlisted violation (VIOLATION line per bucket),
            2 = harness error / inconclusive (never reported as a violation).
"""
from __future__ import annotations

import hashlib
import importlib
import json
import multiprocessing as mp
import os
import re
import sys
import time
import traceback
from contextlib import contextmanager
from pathlib import Path

ROOT = Path(__file__).resolve().parent.parent
REPO = os.environ.get("VERIF_REPO", "/repo")


# ----------------------------------------------------------------------------- exceptions
class Violation(Exception):
    """The property is violated by the code under test on this case."""

    def __init__(self, oracle: str, signature: str = "", detail: str = ""):
        super().__init__(f"{oracle} [{signature}] {detail}")
        self.oracle = oracle
        self.signature = signature or oracle
        self.detail = detail


class Refused(Exception):
    """The code under test refused the input with a documented error (not a failure)."""

    def __init__(self, what: str = ""):
        super().__init__(what)
        self.what = what


class HarnessError(Exception):
    """Something is wrong in the verification machinery itself (exit 2)."""


def _cirkit_frame(exc: BaseException) -> str:
    tb = traceback.extract_tb(exc.__traceback__)
    fr = [f for f in tb if "/cirkit/" in f.filename.replace("\\", "/")]
    if not fr:
        return "?"
    f = fr[-1]
    return f"{f.filename.split('/cirkit/')[-1]}:{f.name}"


@contextmanager
def sut(what: str, refuse: tuple = (), sig: str = ""):
    """Wrap calls into the code under test.

    Exceptions whose type is in `refuse` are documented refusals (-> Refused);
    any other exception is a violation of "the call must succeed" bucketed by
    exception type and innermost cirkit frame. Exceptions outside `sut` blocks
    are harness errors.
    """
    try:
        yield
    except (Violation, Refused, HarnessError):
        raise
    except refuse as e:  # type: ignore[misc]
        raise Refused(f"{what}: {type(e).__name__}: {str(e)[:120]}") from e
    except Exception as e:  # pylint: disable=broad-except
        frame = _cirkit_frame(e)
        raise Violation(
            oracle=f"{what}-must-not-raise",
            signature=sig or f"{what}:{type(e).__name__}@{frame}",
            detail=f"{type(e).__name__}: {str(e)[:300]}",
        ) from e


# ----------------------------------------------------------------------------- helpers
def canon(obj) -> str:
    return json.dumps(obj, sort_keys=True, separators=(",", ":"), default=_json_default)


def _json_default(o):
    import numpy as np

    if isinstance(o, (np.integer,)):
        return int(o)
    if isinstance(o, (np.floating,)):
        return float(o)
    if isinstance(o, np.ndarray):
        return o.tolist()
    if isinstance(o, complex):
        return {"re": o.real, "im": o.imag}
    if isinstance(o, (set, frozenset)):
        return sorted(o)
    if isinstance(o, tuple):
        return list(o)
    raise TypeError(f"not JSON-able: {type(o)}")


def chash(obj) -> str:
    return hashlib.sha1(canon(obj).encode()).hexdigest()[:16]


def load_prop(pid: str):
    return importlib.import_module(f"vlib.props.{pid}")


def derive_seed(seed: int, pid: str, shard: int) -> int:
    h = hashlib.sha256(f"{seed}/{pid}/{shard}".encode()).digest()
    return int.from_bytes(h[:6], "big")


def known_findings(pid: str) -> list[dict]:
    p = ROOT / "known_findings.json"
    if not p.exists():
        return []
    data = json.loads(p.read_text())
    return [e for e in data.get("findings", []) if e.get("property") == pid]


def open_findings(pid: str) -> list[dict]:
    return [e for e in known_findings(pid) if e.get("status") == "open"]


def _matches_known(pid: str, oracle: str, signature: str) -> dict | None:
    for e in open_findings(pid):
        pat = e.get("signature")
        if pat and re.search(pat, signature):
            return e
    return None


# ----------------------------------------------------------------------------- single case
def exec_case(mod, case) -> tuple[str, object]:
    """Returns ('ok', info) | ('refused', what) | ('viol', Violation)."""
    try:
        _reset_globals()
        info = mod.run_case(case)
        return "ok", (info or {})
    except Violation as v:
        return "viol", v
    except Refused as r:
        return "refused", r.what


def _reset_globals():
    import torch

    torch.set_default_dtype(torch.float64)
    torch.set_grad_enabled(True)


# ----------------------------------------------------------------------------- worker
def _settings(n, phases, extra=None):
    from hypothesis import HealthCheck, settings

    return settings(
        max_examples=n,
        database=None,
        deadline=None,
        derandomize=False,
        report_multiple_bugs=False,
        phases=phases,
        suppress_health_check=[HealthCheck.too_slow, HealthCheck.data_too_large,
                               HealthCheck.large_base_example],
        print_blob=False,
        **(extra or {}),
    )


def worker(pid: str, tier: str, seed: int, shard: int, n_cases: int, out: str, shrink_calls: int):
    try:
        _worker(pid, tier, seed, shard, n_cases, out, shrink_calls)
    except BaseException as e:  # pylint: disable=broad-except
        Path(out).write_text(json.dumps({"harness_error": "".join(
            traceback.format_exception(type(e), e, e.__traceback__))[-4000:]}))


def _worker(pid, tier, seed, shard, n_cases, out, shrink_calls):
    import torch
    from hypothesis import Phase, given
    from hypothesis import seed as hseed

    torch.set_num_threads(1)
    mod = load_prop(pid)
    strat = mod.strategy(tier)
    hs = derive_seed(seed, pid, shard)

    st = {"evaluations": 0, "refused": 0, "nt_hashes": set(), "classes": {}, "samples": [],
          "refusals": {}, "excluded": 0}
    buckets: dict[str, dict] = {}

    @hseed(hs)
    @_settings(n_cases, [Phase.generate])
    @given(strat)
    def collect(case):
        st["evaluations"] += 1
        kind, res = exec_case(mod, case)
        if kind == "refused":
            st["refused"] += 1
            key = str(res)[:80]
            st["refusals"][key] = st["refusals"].get(key, 0) + 1
            return
        if kind == "viol":
            v = res
            key = f"{v.oracle}|{v.signature}"
            if key not in buckets:
                buckets[key] = {"oracle": v.oracle, "signature": v.signature, "detail": v.detail,
                                "case": case, "count": 0, "shrunk": False}
            buckets[key]["count"] += 1
            return
        info = res
        for c in info.get("classes", []):
            st["classes"][c] = st["classes"].get(c, 0) + 1
        st["excluded"] += int(info.get("excluded", 0))
        if info.get("nontrivial"):
            h = chash(case)
            if h not in st["nt_hashes"]:
                st["nt_hashes"].add(h)
                if len(st["samples"]) < 3:
                    st["samples"].append(info.get("sample", case))

    collect()

    # ---- shrink each bucket (deterministic re-discovery with the same seed)
    for key, b in list(buckets.items())[:4]:
        if shrink_calls <= 0:
            break
        best = {"case": b["case"], "detail": b["detail"], "calls": 0}

        @hseed(hs)
        @_settings(n_cases, [Phase.generate, Phase.shrink])
        @given(strat)
        def shrink(case, _key=key, _best=best):
            _best["calls"] += 1
            if _best["calls"] > shrink_calls + n_cases:
                return
            kind, res = exec_case(mod, case)
            if kind == "viol" and f"{res.oracle}|{res.signature}" == _key:
                _best["case"] = case
                _best["detail"] = res.detail
                raise AssertionError(_key)

        try:
            shrink()
        except BaseException:  # pylint: disable=broad-except
            pass
        b["case"] = best["case"]
        b["detail"] = best["detail"]
        b["shrunk"] = True

    Path(out).write_text(canon({
        "evaluations": st["evaluations"], "refused": st["refused"],
        "nt_hashes": sorted(st["nt_hashes"]), "classes": st["classes"],
        "samples": st["samples"], "refusals": st["refusals"], "excluded": st["excluded"],
        "buckets": buckets,
    }))


# ----------------------------------------------------------------------------- replay
def replay_file(pid: str, path: str) -> tuple[str, object]:
    mod = load_prop(pid)
    data = json.loads(Path(path).read_text())
    case = data["case"] if "case" in data else data
    return exec_case(mod, case)


# ----------------------------------------------------------------------------- main driver
def run_check(pid: str, tier: str, seed: int, shards: int | None = None) -> int:
    t0 = time.time()
    mod = load_prop(pid)
    budget = int(os.environ.get("VERIF_BUDGET") or mod.BUDGET[tier])  # VERIF_BUDGET: smoke-test a tier with fewer cases
    n_shards = shards or int(os.environ.get("VERIF_SHARDS", "16"))
    per = max(1, budget // n_shards)
    shrink_calls = int(os.environ.get("VERIF_SHRINK_CALLS", "400" if tier == "quick" else "3000"))
    work = ROOT / ".work" / f"{pid}.{os.getpid()}"  # per run: two runs of one check must not share shard files
    work.mkdir(parents=True, exist_ok=True)
    for f in work.glob("*.json"):
        f.unlink()

    violations: list[dict] = []
    known_lines: list[str] = []
    replayed = 0

    # ---- regression / replay tier
    import torch  # noqa: F401  (import cost paid once in parent for replays)

    torch.set_num_threads(1)
    rdir = ROOT / "replays" / pid
    for f in sorted(rdir.glob("*.json")) if rdir.exists() else []:
        replayed += 1
        try:
            kind, res = replay_file(pid, str(f))
        except Exception as e:  # pylint: disable=broad-except
            print(f"HARNESS-ERROR replay {f}: {type(e).__name__}: {e}", file=sys.stderr)
            traceback.print_exc()
            return 2
        if kind == "viol":
            kf = _matches_known(pid, res.oracle, res.signature)
            rel = f.relative_to(ROOT)
            if kf:
                known_lines.append(f"KNOWN-FINDING: property={pid} {kf.get('what', res.signature)}")
            else:
                violations.append({"replay": str(rel), "oracle": res.oracle,
                                   "signature": res.signature, "detail": res.detail})

    # ---- generation tier
    ctx = mp.get_context("spawn")
    procs = []
    for i in range(n_shards):
        out = str(work / f"{i}.json")
        p = ctx.Process(target=worker, args=(pid, tier, seed, i, per, out, shrink_calls))
        p.start()
        procs.append((p, out))
    cap = float(os.environ.get("VERIF_WALL_CAP", "1500" if tier == "quick" else "14400"))
    harness_err = None
    merged = {"evaluations": 0, "refused": 0, "nt": set(), "classes": {}, "samples": [],
              "refusals": {}, "excluded": 0, "buckets": {}}
    for p, out in procs:
        p.join(max(1.0, cap - (time.time() - t0)))
        if p.is_alive():
            p.terminate()
            harness_err = f"worker exceeded wall cap {cap}s"
            continue
        if not os.path.exists(out):
            harness_err = f"worker died without output (exit {p.exitcode})"
            continue
        d = json.loads(Path(out).read_text())
        if "harness_error" in d:
            harness_err = d["harness_error"]
            continue
        merged["evaluations"] += d["evaluations"]
        merged["refused"] += d["refused"]
        merged["excluded"] += d["excluded"]
        merged["nt"].update(d["nt_hashes"])
        for k, v in d["classes"].items():
            merged["classes"][k] = merged["classes"].get(k, 0) + v
        for k, v in d["refusals"].items():
            merged["refusals"][k] = merged["refusals"].get(k, 0) + v
        if len(merged["samples"]) < 5:
            merged["samples"].extend(d["samples"][: 5 - len(merged["samples"])])
        for k, b in d["buckets"].items():
            cur = merged["buckets"].get(k)
            if cur is None or len(canon(b["case"])) < len(canon(cur["case"])):
                cnt = (cur["count"] if cur else 0) + b["count"]
                merged["buckets"][k] = dict(b, count=cnt)
            else:
                cur["count"] += b["count"]
    if harness_err:
        print("HARNESS-ERROR:", harness_err, file=sys.stderr)
        return 2

    fdir = rdir / "found"
    for k, b in merged["buckets"].items():
        kf = _matches_known(pid, b["oracle"], b["signature"])
        if kf:
            line = f"KNOWN-FINDING: property={pid} {kf.get('what', b['signature'])}"
            if line not in known_lines:
                known_lines.append(line)
            continue
        fdir.mkdir(parents=True, exist_ok=True)
        name = chash({"k": k}) + ".json"
        payload = {"property": pid, "oracle": b["oracle"], "signature": b["signature"],
                   "detail": b["detail"], "seed": seed, "tier": tier, "count": b["count"],
                   "case": b["case"]}
        (fdir / name).write_text(json.dumps(json.loads(canon(payload)), indent=1))
        violations.append({"replay": str((fdir / name).relative_to(ROOT)), "oracle": b["oracle"],
                           "signature": b["signature"], "detail": b["detail"]})

    # ---- evidence
    wall = time.time() - t0
    ev = {
        "property_id": pid, "tier": tier, "seed": seed, "level": "exploration",
        "coverage": {
            "evaluations": merged["evaluations"] + replayed,
            "distinct_nontrivial": len(merged["nt"]),
            "rule": mod.RULE,
            "samples": merged["samples"] or [{"note": "no non-trivial sample recorded"}],
            "classes": dict(sorted(merged["classes"].items())),
            "generated": merged["evaluations"],
            "refused": merged["refused"],
            "refusal_kinds": dict(sorted(merged["refusals"].items(), key=lambda kv: -kv[1])[:12]),
            "excluded_by_known_finding": merged["excluded"],
            "replayed": replayed,
            "shards": n_shards,
            "known_findings": known_lines,
        },
        "assumptions": list(getattr(mod, "ASSUMPTIONS", [])),
        "wall_s": round(wall, 2),
        "violations": len(violations),
    }
    (ROOT / "evidence").mkdir(exist_ok=True)
    (ROOT / "evidence" / f"{pid}.json").write_text(json.dumps(json.loads(canon(ev)), indent=1))
    _validate_evidence(ROOT / "evidence" / f"{pid}.json")

    for ln in known_lines:
        print(ln)
    print(f"[{pid}] tier={tier} seed={seed} cases={merged['evaluations']} "
          f"nontrivial={len(merged['nt'])} refused={merged['refused']} replayed={replayed} "
          f"wall={wall:.1f}s violations={len(violations)}")
    if os.environ.get("VERIF_VERBOSE"):
        print(json.dumps(ev["coverage"]["classes"], indent=0))
    for v in violations:
        print(f"VIOLATION property={pid} replay={v['replay']}")
        print(f"  oracle={v['oracle']} signature={v['signature']} detail={v['detail'][:300]}")
    try:
        for f in work.glob("*.json"):
            f.unlink()
        work.rmdir()
    except OSError:
        pass
    if violations:
        return 1
    min_nt = getattr(mod, "MIN_NONTRIVIAL", 2)
    if len(merged["nt"]) < min_nt:
        print(f"HARNESS-ERROR: only {len(merged['nt'])} non-trivial cases generated", file=sys.stderr)
        return 2
    return 0


def _validate_evidence(path: Path):
    try:
        import jsonschema  # type: ignore
    except Exception:  # pylint: disable=broad-except
        return
    sp = Path("/root/.vp/EVIDENCE.schema.json")
    if not sp.exists():
        return
    jsonschema.validate(json.loads(path.read_text()), json.loads(sp.read_text()))


def run_replay(pid: str, path: str) -> int:
    import torch

    torch.set_num_threads(1)
    try:
        kind, res = replay_file(pid, path)
    except Exception as e:  # pylint: disable=broad-except
        print(f"HARNESS-ERROR replay {path}: {type(e).__name__}: {e}", file=sys.stderr)
        traceback.print_exc()
        return 2
    if kind == "viol":
        kf = _matches_known(pid, res.oracle, res.signature)
        if kf:
            print(f"KNOWN-FINDING: property={pid} {kf.get('what', res.signature)}")
            return 0
        print(f"VIOLATION property={pid} replay={path}")
        print(f"  oracle={res.oracle} signature={res.signature} detail={res.detail[:500]}")
        return 1
    print(f"[{pid}] replay {path}: {kind}")
    return 0
