"""CLI: ./check <ID> [--tier quick|thorough] [--replay FILE] [--shards N]"""
import argparse
import os
import sys


def main(argv=None) -> int:
    ap = argparse.ArgumentParser(prog="check")
    ap.add_argument("pid")
    ap.add_argument("--tier", default=os.environ.get("VERIF_TIER", "quick"), choices=["quick", "thorough"])
    ap.add_argument("--replay", default=None)
    ap.add_argument("--shards", type=int, default=None)
    ap.add_argument("--seed", type=int, default=None)
    a = ap.parse_args(argv)
    try:
        seed = a.seed if a.seed is not None else int(os.environ.get("VERIF_SEED", "1") or "1")
    except ValueError:
        seed = 1
    from vlib import runner

    try:
        if a.replay:
            return runner.run_replay(a.pid, a.replay)
        return runner.run_check(a.pid, a.tier, seed, a.shards)
    except SystemExit:
        raise
    except BaseException as e:  # pylint: disable=broad-except
        import traceback

        traceback.print_exc()
        print(f"HARNESS-ERROR: {type(e).__name__}: {e}", file=sys.stderr)
        return 2


if __name__ == "__main__":
    sys.exit(main())
