"""Shared helpers: compile, tie values, evaluate, compare against the reference."""
from __future__ import annotations

import numpy as np
import torch

from vlib import ref, tie, tol
from vlib.runner import Violation, sut


def compile_circuit(sc, semiring="sum-product", fold=False, optimize=False, comp=None, what="compile"):
    from cirkit.backend.torch.compiler import TorchCompiler

    if comp is None:
        comp = TorchCompiler(semiring=semiring, fold=fold, optimize=optimize)
    with sut(what):
        cc = comp.compile(sc)
    return comp, cc


def evaluate(cc, X, semiring, what="evaluate", grad=False):
    """Compiled outputs mapped to linear space (numpy)."""
    with sut(what):
        if grad:
            y = cc(torch.from_numpy(np.ascontiguousarray(X))) if X is not None else cc()
        else:
            with torch.no_grad():
                y = cc(torch.from_numpy(np.ascontiguousarray(X))) if X is not None else cc()
    return tol.lin(y, semiring)


def check_against_ref(y, r, M, oracle, sigprefix="", rtol=tol.RTOL):
    if tol.degenerate(r, M):
        return "degenerate"
    msg = tol.mismatch(y, r, M, rtol=rtol)
    if msg is not None:
        kind = "shape" if msg.startswith("shape") else "value"
        raise Violation(oracle, f"{sigprefix}{kind}", msg)
    return "ok"


def batch_size(bclass, cc, nvars):
    if bclass == "fold":
        fc = [f for f in tie.fold_counts(cc) if f > 1]
        return max(fc) if fc else 2
    if bclass == "fold-min":
        fc = [f for f in tie.fold_counts(cc) if f > 1]
        return min(fc) if fc else 3
    if bclass == "nvars":
        return max(1, nvars)
    return int(bclass)


BCLASSES = [1, 2, 3, 5, "fold", "fold-min", "nvars"]


def structure_classes(spec):
    from vlib.spec import spec_scope

    cl = []
    types = {L["t"] for L in spec["layers"]}
    cl += [f"layer:{t}" for t in sorted(types)]
    ar = max([len(L["in"]) for L in spec["layers"] if "in" in L], default=0)
    cl.append(f"max-arity:{min(ar, 4)}")
    if any(L["t"] == "sum" and len(L["in"]) > 1 for L in spec["layers"]):
        cl.append("nary-sum")
    if any(L["t"] == "sum" and L["p"]["k"].startswith("mix:") for L in spec["layers"]):
        cl.append("mixing-sum")
    cl.append(f"outputs:{len(spec['outputs'])}")
    sc = spec_scope(spec)
    if sc and max(sc) >= 8:
        cl.append("var-id>=8")
    if sc and sorted(sc) != list(range(len(sc))):
        cl.append("non-contiguous-scope")
    used = {}
    for L in spec["layers"]:
        for i in L.get("in", []):
            used[i] = used.get(i, 0) + 1
    if any(v > 1 for v in used.values()):
        cl.append("shared-sublayer")
    if any(o in used for o in spec["outputs"]):
        cl.append("output-feeds-other-layer")
    return cl
