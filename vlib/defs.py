"""Independent, set-based structural predicates (no ordering of scopes anywhere).

A "view" is a list of nodes (kind, inputs, scope) with kind in {"in","sum","prod"}; scopes are
frozensets computed here from the leaves.
"""
from __future__ import annotations

from itertools import combinations


def view_from_spec(spec):
    nodes = []
    for L in spec["layers"]:
        t = L["t"]
        if "in" in L:
            sc = frozenset().union(*[nodes[i][2] for i in L["in"]])
            nodes.append(("sum" if t == "sum" else "prod", tuple(L["in"]), sc))
        elif t == "const":
            nodes.append(("in", (), frozenset()))
        else:
            nodes.append(("in", (), frozenset([L["v"]])))
    return nodes


def view_from_circuit(sc):
    from cirkit.symbolic.layers import InputLayer, ProductLayer, SumLayer

    order = list(sc.topological_ordering())
    pos = {id(l): i for i, l in enumerate(order)}
    nodes = []
    for l in order:
        ins = tuple(pos[id(i)] for i in sc.layer_inputs(l))
        if isinstance(l, InputLayer):
            nodes.append(("in", (), frozenset(int(v) for v in l.scope)))
        else:
            s = frozenset().union(*[nodes[i][2] for i in ins]) if ins else frozenset()
            kind = "sum" if isinstance(l, SumLayer) else "prod"
            assert isinstance(l, (SumLayer, ProductLayer))
            nodes.append((kind, ins, s))
    return nodes


def is_smooth(view) -> bool:
    return all(len({view[i][2] for i in ins}) <= 1 for k, ins, _ in view if k == "sum")


def is_decomposable(view) -> bool:
    for k, ins, _ in view:
        if k != "prod":
            continue
        for a, b in combinations(range(len(ins)), 2):
            if view[ins[a]][2] & view[ins[b]][2]:
                return False
    return True


def factorizations(view):
    """scope -> set of splits; a split is the frozenset of non-empty sub-scopes of a product with
    at least two non-empty factors."""
    out = {}
    for k, ins, sc in view:
        if k != "prod":
            continue
        parts = [view[i][2] for i in ins if view[i][2]]
        if len(parts) < 2:
            continue
        out.setdefault(sc, set()).add(frozenset(parts))
    return out


def same_split_everywhere(*views) -> bool:
    """All products over the same scope (in all given views) split it into the same set of
    sub-scopes."""
    merged = {}
    for v in views:
        for sc, splits in factorizations(v).items():
            merged.setdefault(sc, set()).update(splits)
    return all(len(s) == 1 for s in merged.values())


def scope_of(view, outputs):
    return frozenset().union(*[view[i][2] for i in outputs]) if outputs else frozenset()
