"""Read / write compiled values through the compiler state map; flag-matrix helpers."""
from __future__ import annotations

import numpy as np
import torch

from cirkit.backend.torch.compiler import TorchCompiler
from cirkit.symbolic import layers as L
from cirkit.symbolic import parameters as P
from cirkit.symbolic.dtypes import DataType

FLAGS = [(False, False), (True, False), (False, True), (True, True)]
SEMIRINGS = ["sum-product", "lse-sum", "complex-lse-sum"]


def layer_params(sl):
    ps = list(sl.params.values())
    if isinstance(sl, L.EvidenceLayer):
        ps.extend(layer_params(sl.layer))
    return ps


def sym_tensors(*circuits, include_const=False):
    """Symbolic TensorParameters (deref'ed) reachable from the circuits, in deterministic order."""
    out, seen = [], set()
    for sc in circuits:
        for sl in sc.layers:
            for p in layer_params(sl):
                for n in p.nodes:
                    if isinstance(n, P.ReferenceParameter):
                        n = n.deref()
                    if not isinstance(n, P.TensorParameter):
                        continue
                    if isinstance(n, P.ConstantParameter) and not include_const:
                        continue
                    if id(n) not in seen:
                        seen.add(id(n))
                        out.append(n)
    return out


PROFILES = ("normal", "ints", "wide")


def draw_values(tensors, seed: int, profile: str):
    rng = np.random.default_rng(seed)
    vals = {}
    for t in tensors:
        vs = getattr(t, "_vspec", {}) or {}
        scale = vs.get("scale", 1.0)
        if profile == "ints":
            re = rng.integers(-2, 3, size=t.shape).astype(np.float64)
            im = rng.integers(-2, 3, size=t.shape).astype(np.float64)
        elif profile == "wide":
            re = rng.normal(size=t.shape) * 6.0
            im = rng.normal(size=t.shape) * 6.0
        elif profile == "tiny":
            # some tensors many orders of magnitude below one (positive values below machine epsilon after a
            # non-negative parameterisation such as clamp / square)
            kind = str(vs.get("k", ""))
            direct = ("clamp" in kind) or ("square" in kind)  # the tensor's scale reaches the layer directly
            k = float(rng.choice([0.0, 20.0] if direct else [0.0, 0.0, 8.0, 20.0]))
            re = rng.normal(size=t.shape) * 10.0 ** (-k)
            im = rng.normal(size=t.shape) * 10.0 ** (-k)
            if "clamp" in kind:
                re = np.abs(re)  # keep clamp(t) = t > 0 (tiny but positive) instead of an exact zero
        elif profile == "zeros":
            # ordinary values with a fifth of the entries EXACTLY zero (square(0) = 0, a zero embedding entry or
            # weight: -inf in a log-space semiring); clamp-parameterised tensors keep away from their kink
            re = rng.normal(size=t.shape)
            im = rng.normal(size=t.shape)
            if "clamp" not in str(vs.get("k", "")):
                z = rng.random(size=t.shape) < 0.2
                re = np.where(z, 0.0, re)
                im = np.where(z, 0.0, im)
        else:
            re = rng.normal(size=t.shape)
            im = rng.normal(size=t.shape)
        if vs.get("role") == "nonneg0":
            re = np.abs(re)
            if profile != "tiny":
                re = np.where(rng.random(size=t.shape) < 0.2, 0.0, re)
            im = np.zeros_like(re)
        if vs.get("role") == "simplex0":
            # normalised rows along the last axis with exact zeros (at least one entry per row is positive)
            n = t.shape[-1]
            w = rng.integers(0, 4, size=t.shape).astype(np.float64)
            hot = rng.integers(0, n, size=t.shape[:-1])
            np.put_along_axis(w, hot[..., None], np.maximum(np.take_along_axis(w, hot[..., None], -1), 1.0), -1)
            re = w / w.sum(axis=-1, keepdims=True)
            im = np.zeros_like(re)
            scale = 1.0
        if vs.get("role") == "bounded":  # e.g. Gaussian means: keep quadrature-friendly
            re = np.clip(re, -3, 3)
            im = np.clip(im, -3, 3)
        if t.dtype == DataType.COMPLEX:
            vals[t] = (re + 1j * im) * scale
        else:
            vals[t] = re * scale
    return vals


def _storage(compiler, t):
    """(tensor node, fold index) registered for the symbolic tensor t; a registry entry that points to a
    tensor without storage (never initialised, or replaced by a later compilation) is a violation of the
    'remains addressable' part of C02 / C10, not a harness problem."""
    from vlib.runner import Violation

    try:
        node, idx = compiler.state.retrieve_compiled_parameter(t)
    except Exception as e:  # pylint: disable=broad-except
        raise Violation("addressability", "state-map:not-registered", f"{type(e).__name__}: {e}") from e
    if getattr(node, "_ptensor", None) is None:
        raise Violation("addressability", "state-map:uninitialised-tensor",
                        "the compiled tensor registered for a symbolic tensor has no storage")
    return node, idx


def write_values(compiler: TorchCompiler, vals):
    with torch.no_grad():
        for t, v in vals.items():
            node, idx = _storage(compiler, t)
            node._ptensor.data[idx].copy_(torch.from_numpy(np.ascontiguousarray(v)))


def read_values(compiler: TorchCompiler, tensors):
    vals = {}
    for t in tensors:
        node, idx = _storage(compiler, t)
        vals[t] = node._ptensor.data[idx].detach().cpu().numpy().copy()
    return vals


def fold_counts(cc):
    return sorted({int(l.num_folds) for l in cc.layers})


def layer_type_names(cc):
    return sorted({type(l).__name__ for l in cc.layers})


def param_node_type_names(cc):
    names = set()
    for l in cc.layers:
        for p in l.params.values():
            for n in p.nodes:
                names.add(type(n).__name__)
    return sorted(names)
