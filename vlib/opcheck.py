"""Shared body of the operator properties (C03-C07, and pipelines in C02/C10/C19):
build base circuits from specs, apply the pipeline through cirkit.symbolic.functional, compile the
last node, tie values, compare with the operand-based oracle (vlib/ops.py)."""
from __future__ import annotations

import numpy as np

from vlib import gen, harness, ops, tie, tol
from vlib.runner import HarnessError, Refused, Violation, sut
from vlib.spec import build


def domains_of_case(case):
    dom = {}
    for s in case["bases"]:
        for k, v in gen.domains_of(s).items():
            dom[k] = tuple(v)
    if not dom:
        from vlib.spec import var_domains

        for s in case["bases"]:
            dom.update(var_domains(s))
    return dom


def draw_X(domains, seed, B):
    rng = np.random.default_rng(seed)
    D = (max(domains) + 1) if domains else 1
    X = np.zeros((B, D), dtype=np.float64)
    for v in sorted(domains):
        d = domains[v]
        if d[0] == "d":
            X[:, v] = rng.integers(0, d[1], size=B)
        else:
            X[:, v] = np.round(rng.normal(size=B) * 1.2, 3)
    return X


class Prepared:
    """Everything a property body needs about one pipeline case."""


def prepare(case, *, refuse=None, compile_node=-1, comp=None):
    from cirkit.backend.torch.compiler import TorchCompiler

    P = Prepared()
    P.case = case
    P.base_specs = [{"layers": s["layers"], "outputs": s["outputs"]} for s in case["bases"]]
    P.base_scs = [build(s) for s in P.base_specs]
    P.pipe = case["pipe"]
    P.scs = ops.build_pipeline(P.pipe, P.base_scs, refuse=refuse)
    P.domains = domains_of_case(case)
    P.sem = case.get("semiring", "sum-product")
    P.comp = comp or TorchCompiler(semiring=P.sem, fold=case.get("fold", False),
                                   optimize=case.get("optimize", False))
    P.target = P.scs[compile_node]
    with sut("compile"):
        P.cc = P.comp.compile(P.target)
    P.vals = tie.draw_values(tie.sym_tensors(*P.base_scs), case.get("vseed", 0), case.get("profile", "normal"))
    used = ops.used_bases(P.pipe, compile_node % len(P.pipe))
    P.tensors = tie.sym_tensors(*[P.base_scs[i] for i in used])
    tie.write_values(P.comp, {t: P.vals[t] for t in P.tensors})
    P.oracle = ops.PipeOracle(P.pipe, P.base_specs, P.base_scs, P.vals, P.domains)
    P.scopes = P.oracle.scopes
    return P


def eval_node(P, i, X, what="evaluate", cc=None):
    """Compiled value of pipeline node i (already compiled as cc, default the target) in linear space;
    empty-scope circuits are called without input and broadcast to the batch."""
    cc = cc if cc is not None else P.cc
    empty = len(P.scopes[i]) == 0
    if empty:
        y = harness.evaluate(cc, None, P.sem, what=what)
        if y.ndim != 2:
            raise Violation("output-shape", "empty-scope-shape", f"got {tuple(y.shape)}, expected (O, K)")
        return np.broadcast_to(y[None], (X.shape[0],) + y.shape), True
    return harness.evaluate(cc, X, P.sem, what=what), False


def compare_node(P, i, X, oracle_name, sig="", rtol=tol.RTOL, cc=None):
    try:
        r, M = P.oracle.value_with_mag(i, X)
    except ops.GridTooLarge:
        return "grid-too-large"
    y, _ = eval_node(P, i, X, cc=cc)
    return harness.check_against_ref(y, r, M, oracle_name, sigprefix=sig, rtol=rtol)


def pipe_classes(case):
    cl = [f"op:{n['op']}" for n in case["pipe"] if n["op"] != "base"]
    cl.append(f"chain:{sum(1 for n in case['pipe'] if n['op'] != 'base')}")
    cl += [f"sem:{case.get('semiring')}", f"fold:{case.get('fold')}", f"opt:{case.get('optimize')}"]
    return cl


# ----------------------------------------------------------------------------- strategy helpers
def draw_cfg(draw, semirings=("sum-product", "lse-sum", "complex-lse-sum"), profiles=("normal", "normal", "ints"),
             batches=(1, 2, 3, 5)):
    from hypothesis import strategies as st

    return {"semiring": draw(st.sampled_from(list(semirings))), "fold": draw(st.booleans()),
            "optimize": draw(st.booleans()), "vseed": draw(st.integers(0, 2**20)),
            "profile": draw(st.sampled_from(list(profiles))), "xseed": draw(st.integers(0, 2**20)),
            "B": draw(st.sampled_from(list(batches)))}


def draw_obs(draw, domains, variables, min_size=1, max_size=None):
    """Observation [[var, value], ...] over a drawn non-empty subset of `variables`, in-domain."""
    from hypothesis import strategies as st

    vs = sorted(variables)
    sub = draw(st.lists(st.sampled_from(vs), min_size=min_size, max_size=max_size or len(vs), unique=True))
    obs = []
    for v in sub:  # drawn order: the observation dict is not necessarily sorted by variable id
        d = domains[v]
        if d[0] == "d":
            obs.append([v, draw(st.integers(0, d[1] - 1))])
        else:
            obs.append([v, draw(st.sampled_from([-1.5, -0.25, 0.0, 0.5, 1.25, 1, -2]))])  # floats and Python ints
    return obs


def draw_subset(draw, variables, min_size=1, max_size=None):
    from hypothesis import strategies as st

    vs = sorted(variables)
    return sorted(draw(st.lists(st.sampled_from(vs), min_size=min_size, max_size=max_size or len(vs), unique=True)))


def feat(case):
    return "+".join(f for f, on in (("fold", case.get("fold")), ("opt", case.get("optimize"))) if on) or "plain"


def base_classes(case, prefixes=("layer:", "nary", "mixing", "outputs:", "var-id", "non-contig", "max-arity")):
    cl = set()
    for s in case["bases"]:
        cl.update(c for c in harness.structure_classes(s) if c.startswith(prefixes))
    return sorted(cl)


# ----------------------------------------------------------------------------- general pipelines
def pipeline_strategy(*, max_ops=3, max_vars=3, max_K=2, semirings=("sum-product", "lse-sum", "complex-lse-sum"),
                      all_types_single=True):
    """Cases {bases, pipe, cfg...}: 1..2 skeleton-sharing base circuits and a chain of 1..max_ops
    operators, valid by construction (a residual share is refused by the library, which is counted)."""
    from hypothesis import strategies as st

    @st.composite
    def _s(draw):
        cfg = draw_cfg(draw, semirings=semirings)
        sem = cfg["semiring"]
        family = draw(st.sampled_from(["prob", "prob", "poly"])) if sem != "lse-sum" else "prob"
        types = ("cat", "catl", "emb", "gau") if family == "prob" else ("pol",)
        kw = dict(max_vars=max_vars, max_K=max_K, input_types=types, ncat_max=3, deg_max=2, kron_max_out=9)
        if sem == "lse-sum":
            kw.update(nonneg=True)
        elif sem == "complex-lse-sum":
            kw.update(cx=True)
        nb = draw(st.integers(1, 2))
        bases = draw(gen.sd_pair(n=nb, skeleton=True, max_reps=2, same_K=draw(st.booleans()), **kw))
        if draw(st.integers(0, 2)) == 0:
            bases = [gen.unlearn(draw, b, p=8) for b in bases]  # some frozen tensors
        dom = gen.domains_of(bases[0])
        full = frozenset(dom)
        pipe = [{"op": "base", "i": i} for i in range(nb)]
        # per-node model: scope, units, pure (only layers that have conjugate/multiply/differentiate rules)
        # mixed: outputs with different scopes (integrating a variable an output does not depend
        # on is not what the operator is specified for), so no integrate after that
        # L: estimated number of layers (products of circuits multiply them; bounded to keep cases small)
        info = [{"scope": full, "K": _root_units(b), "pure": True, "O": len(b["outputs"]), "diff": False,
                 "mixed": False, "L": len(b["layers"])} for b in bases]
        nops = draw(st.integers(1, max_ops))
        for _ in range(nops):
            ops_ok = []
            idx = list(range(len(pipe)))
            pure = [i for i in idx if info[i]["pure"] and not info[i]["diff"]]
            nonempty = [i for i in idx if info[i]["scope"]]
            if pure:
                ops_ok += ["conjugate", "multiply", "multiply"]
            integrable = [i for i in nonempty if not info[i]["diff"] and not info[i]["mixed"]]
            if family == "prob" and integrable:
                ops_ok += ["integrate", "integrate"]
            if family == "poly" and [i for i in pure if info[i]["scope"] and info[i]["O"] <= 2]:
                ops_ok += ["differentiate", "differentiate"]
            if nonempty:
                ops_ok += ["evidence"]
            ops_ok += ["concatenate"]
            op = draw(st.sampled_from(ops_ok))
            if op == "conjugate":
                a = draw(st.sampled_from(pure))
                pipe.append({"op": op, "a": a})
                info.append(dict(info[a]))
            elif op == "multiply":
                a = draw(st.sampled_from(pure))
                cands = [i for i in pure if info[i]["scope"] == info[a]["scope"] and info[i]["K"] * info[a]["K"] <= 16
                         and info[i]["O"] * info[a]["O"] <= 6 and info[i]["L"] * info[a]["L"] <= 400]
                if not cands:
                    continue
                b = draw(st.sampled_from(cands))
                pipe.append({"op": op, "a": a, "b": b})
                info.append({"scope": info[a]["scope"], "K": info[a]["K"] * info[b]["K"], "pure": True,
                             "O": info[a]["O"] * info[b]["O"], "diff": False, "mixed": False,
                             "L": info[a]["L"] * info[b]["L"]})
            elif op == "integrate":
                a = draw(st.sampled_from(integrable))
                Z = draw_subset(draw, info[a]["scope"])
                pipe.append({"op": op, "a": a, "Z": Z})
                info.append(dict(info[a], scope=info[a]["scope"] - frozenset(Z), pure=False))
            elif op == "differentiate":
                a = draw(st.sampled_from([i for i in pure if info[i]["scope"] and info[i]["O"] <= 2]))
                pipe.append({"op": op, "a": a, "order": draw(st.sampled_from([1, 1, 2]))})
                info.append(dict(info[a], O=info[a]["O"] * (len(info[a]["scope"]) + 1), diff=True,
                                 L=info[a]["L"] * (len(info[a]["scope"]) + 1)))
            elif op == "evidence":
                a = draw(st.sampled_from(nonempty))
                obs = draw_obs(draw, dom, info[a]["scope"])
                pipe.append({"op": op, "a": a, "obs": obs})
                info.append(dict(info[a], scope=info[a]["scope"] - frozenset(o[0] for o in obs), pure=False))
            else:
                a = draw(st.sampled_from(idx))
                cands = [i for i in idx if info[i]["K"] == info[a]["K"]]
                chosen = draw(st.lists(st.sampled_from(cands), min_size=1, max_size=3))
                if sum(info[i]["O"] for i in chosen) > 12:
                    continue
                pipe.append({"op": op, "as": chosen})
                info.append({"scope": frozenset().union(*[info[i]["scope"] for i in chosen]), "K": info[a]["K"],
                             "pure": all(info[i]["pure"] for i in chosen), "O": sum(info[i]["O"] for i in chosen),
                             "diff": any(info[i]["diff"] for i in chosen),
                             "mixed": any(info[i]["mixed"] for i in chosen)
                             or len({info[i]["scope"] for i in chosen}) > 1,
                             "L": sum(info[i]["L"] for i in chosen)})
        return dict(cfg, bases=bases, pipe=pipe, family=family)

    return _s()


def _root_units(spec):
    from vlib.spec import spec_units

    return spec_units(spec)[spec["outputs"][0]]


def has_continuous_integral(P):
    for i, n in enumerate(P.pipe):
        if n["op"] == "integrate":
            Z = n["Z"] if n.get("Z") is not None else sorted(P.scopes[n["a"]])
            if any(P.domains[v][0] == "c" for v in Z):
                return True
    return False
