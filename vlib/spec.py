"""JSON-able circuit / parameter specs  <->  cirkit symbolic objects.

circuit spec := {"layers": [L0, L1, ...] (topologically ordered; ids = positions), "outputs": [ids]}
L := {"t": "cat", "v": var, "K": k, "n": ncat, "p": PK}            probs = PK(T)  (PK normalising)
   | {"t": "catl","v": var, "K": k, "n": ncat, "p": PK}            logits = PK(T)
   | {"t": "bin", "v": var, "K": k, "n": total, "p": PK}           probs = PK(T) (in (0,1))
   | {"t": "binl","v": var, "K": k, "n": total, "p": PK}           logits
   | {"t": "gau", "v": var, "K": k, "m": PK, "s": PK, "lp": PK|None}
   | {"t": "emb", "v": var, "K": k, "n": nstates, "p": PK}
   | {"t": "pol", "v": var, "K": k, "n": degree, "p": PK}
   | {"t": "const", "K": k, "log": bool, "p": PK}
   | {"t": "sum", "in": [ids], "K": ko, "p": PK}
   | {"t": "had" | "kro", "in": [ids]}
PK (parameter kind) := {"k": name, "cx": bool, "learn": bool, "scale": float, ...args}
   names: plain softmax logsoftmax-exp exp softplus sigmoid ssig clamp square mix:<name>
"""
from __future__ import annotations

import numpy as np

from cirkit.symbolic.circuit import Circuit
from cirkit.symbolic.dtypes import DataType
from cirkit.symbolic.initializers import NormalInitializer
from cirkit.symbolic.layers import (
    BinomialLayer,
    CategoricalLayer,
    ConstantValueLayer,
    EmbeddingLayer,
    GaussianLayer,
    HadamardLayer,
    KroneckerLayer,
    PolynomialLayer,
    SumLayer,
)
from cirkit.symbolic.parameters import (
    ClampParameter,
    ConstantParameter,
    ExpParameter,
    LogSoftmaxParameter,
    MixingWeightParameter,
    Parameter,
    ScaledSigmoidParameter,
    SigmoidParameter,
    SoftmaxParameter,
    SoftplusParameter,
    SquareParameter,
    TensorParameter,
)
from cirkit.utils.scope import Scope

INPUT_TYPES = ("cat", "catl", "bin", "binl", "gau", "emb", "pol", "const")


def pk(k="plain", **kw):
    d = {"k": k}
    d.update(kw)
    return d


def mk_tensor(shape, p):
    dtype = DataType.COMPLEX if p.get("cx") else DataType.REAL
    t = TensorParameter(*shape, initializer=NormalInitializer(), learnable=p.get("learn", True),
                        dtype=dtype)
    t._vspec = p  # harness-side annotation (value scale / role); never read by cirkit
    return t


def mk_param(shape, p) -> Parameter:
    """Build a symbolic Parameter of the given output shape from a parameter kind."""
    shape = tuple(shape)
    k = p["k"]
    if k.startswith("mix:"):
        inner = dict(p, k=k[4:])
        K = shape[0]
        H = shape[1] // K
        return Parameter.from_unary(MixingWeightParameter((K, H)), mk_param((K, H), inner))
    if k == "constv":
        v = p["value"]
        if isinstance(v, list):
            v = np.array(v, dtype=np.float64).reshape(shape)
        return Parameter.from_input(ConstantParameter(*shape, value=v))
    t = mk_tensor(shape, p)
    if k == "plain":
        return Parameter.from_input(t)
    ax = p.get("axis", -1)
    node = {
        "softmax": lambda: SoftmaxParameter(shape, axis=ax),
        "exp": lambda: ExpParameter(shape),
        "softplus": lambda: SoftplusParameter(shape),
        "sigmoid": lambda: SigmoidParameter(shape),
        "ssig": lambda: ScaledSigmoidParameter(shape, vmin=p.get("vmin", 0.2), vmax=p.get("vmax", 1.5)),
        "clamp": lambda: ClampParameter(shape, vmin=p.get("vmin", 0.0), vmax=p.get("vmax", None)),
        "square": lambda: SquareParameter(shape),
    }
    if k in node:
        return Parameter.from_unary(node[k](), t)
    if k == "logsoftmax-exp":  # exp(log_softmax(T)): normalised, exercises two nodes
        return Parameter.from_sequence(t, LogSoftmaxParameter(shape, axis=ax), ExpParameter(shape))
    raise ValueError(f"unknown parameter kind {k}")


def build_layer(L, layers):
    t = L["t"]
    if t in ("sum", "had", "kro"):
        ins = [layers[i] for i in L["in"]]
        Ki = ins[0].num_output_units
        if t == "sum":
            Ko = L["K"]
            return SumLayer(Ki, Ko, arity=len(ins), weight=mk_param((Ko, Ki * len(ins)), L["p"]))
        if t == "had":
            return HadamardLayer(Ki, arity=len(ins))
        return KroneckerLayer(Ki, arity=len(ins))
    K = L["K"]
    if t == "const":
        return ConstantValueLayer(K, log_space=bool(L.get("log", False)), value=mk_param((K,), L["p"]))
    sc = Scope([L["v"]])
    if t == "cat":
        return CategoricalLayer(sc, K, num_categories=L["n"], probs=mk_param((K, L["n"]), L["p"]))
    if t == "catl":
        return CategoricalLayer(sc, K, num_categories=L["n"], logits=mk_param((K, L["n"]), L["p"]))
    if t == "bin":
        return BinomialLayer(sc, K, total_count=L["n"], probs=mk_param((K,), L["p"]))
    if t == "binl":
        return BinomialLayer(sc, K, total_count=L["n"], logits=mk_param((K,), L["p"]))
    if t == "gau":
        lp = mk_param((K,), L["lp"]) if L.get("lp") else None
        return GaussianLayer(sc, K, mean=mk_param((K,), L["m"]), stddev=mk_param((K,), L["s"]),
                             log_partition=lp)
    if t == "emb":
        return EmbeddingLayer(sc, K, num_states=L["n"], weight=mk_param((K, L["n"]), L["p"]))
    if t == "pol":
        return PolynomialLayer(sc, K, degree=L["n"], coeff=mk_param((K, L["n"] + 1), L["p"]))
    raise ValueError(f"unknown layer type {t}")


def build(spec) -> Circuit:
    layers = []
    in_layers = {}
    for L in spec["layers"]:
        sl = build_layer(L, layers)
        layers.append(sl)
        if "in" in L:
            in_layers[sl] = [layers[i] for i in L["in"]]
    sc = Circuit(layers, in_layers, [layers[i] for i in spec["outputs"]])
    sc._vlayers = layers  # harness-side: spec position -> symbolic layer
    return sc


# ----------------------------------------------------------------------------- spec analysis
def spec_scopes(spec):
    scopes = []
    for L in spec["layers"]:
        if "in" in L:
            s = frozenset().union(*[scopes[i] for i in L["in"]])
        elif L["t"] == "const":
            s = frozenset()
        else:
            s = frozenset([L["v"]])
        scopes.append(s)
    return scopes


def spec_units(spec):
    units = []
    for L in spec["layers"]:
        t = L["t"]
        if t == "had":
            units.append(units[L["in"][0]])
        elif t == "kro":
            units.append(units[L["in"][0]] ** len(L["in"]))
        else:
            units.append(L["K"])
    return units


def spec_scope(spec):
    sc = spec_scopes(spec)
    return frozenset().union(*[sc[i] for i in spec["outputs"]])


def var_domains(spec):
    """var -> ('d', n) discrete with n states | ('c',) continuous. Raises on inconsistent use."""
    dom = {}
    for L in spec["layers"]:
        if "in" in L or L["t"] == "const":
            continue
        t = L["t"]
        if t in ("cat", "catl", "emb"):
            d = ("d", L["n"])
        elif t in ("bin", "binl"):
            d = ("d", L["n"] + 1)
        else:
            d = ("c",)
        v = L["v"]
        if v in dom and dom[v] != d:
            if dom[v][0] == "d" and d[0] == "d":
                dom[v] = ("d", min(dom[v][1], d[1]))
            else:
                dom[v] = ("mixed",)
        else:
            dom.setdefault(v, d)
    return dom


def renumber(spec, mapping):
    out = {"layers": [], "outputs": list(spec["outputs"])}
    for L in spec["layers"]:
        L2 = dict(L)
        if "v" in L2 and L2.get("v") is not None:
            L2["v"] = mapping[L2["v"]]
        out["layers"].append(L2)
    return out


def reachable(spec):
    seen = set()
    stack = list(spec["outputs"])
    while stack:
        i = stack.pop()
        if i in seen:
            continue
        seen.add(i)
        stack.extend(spec["layers"][i].get("in", []))
    return seen


def prune(spec):
    """Drop layers not reachable from outputs (Circuit() accepts them, but keep specs tidy)."""
    keep = sorted(reachable(spec))
    remap = {old: new for new, old in enumerate(keep)}
    layers = []
    for old in keep:
        L = dict(spec["layers"][old])
        if "in" in L:
            L["in"] = [remap[i] for i in L["in"]]
        layers.append(L)
    return {"layers": layers, "outputs": [remap[i] for i in spec["outputs"]]}
