"""C05 — differentiate returns the k-th partial derivatives in increasing variable-id order, then c."""
from __future__ import annotations

import numpy as np
import torch
from hypothesis import strategies as st

from vlib import gen, harness, opcheck, tol
from vlib.runner import Violation

ID = "C05"
BUDGET = {"quick": 1600, "thorough": 80000}
RULE = ("Generated: smooth&decomposable DAGs over polynomial inputs only (degree 0..3, real or complex "
        "coefficients), any nesting, Hadamard/Kronecker products of arity 2..3, n-ary sums, 1..5 variables "
        "always renumbered into 0..24 (non-contiguous, ids >= 8), 1..3 outputs, order k in 1..3; also "
        "differentiate(multiply(c1,c2)); x semiring {sum-product, complex-lse-sum} x fold x optimize. Oracle: "
        "exact polynomial differentiation of the reference (every polynomial input over x_v replaced by its k-th "
        "derivative polynomial; Vandermonde interpolation for products) laid out as, per output, "
        "[d^k/dx_v for v in sorted(scope)] + [c]; for k = 1 additionally autograd of the compiled operand. "
        "Non-trivial = compared, >= 2 variables and (an id >= 8 or a product of arity >= 3 or order >= 2); "
        "distinct = hash of case.")
ASSUMPTIONS = ["float64; |lin(y)-r| <= 1e-9*M with M the derivative of the all-absolute-values polynomial "
               "(1e-7*M when the expected value comes from Vandermonde interpolation, i.e. derivatives of products)",
               "autograd cross-check only in sum-product with real parameters and k = 1 (tolerance 1e-7*M)"]


@st.composite
def _case(draw, tier):
    big = tier == "thorough"
    cfg = opcheck.draw_cfg(draw, semirings=("sum-product", "complex-lse-sum"))
    cx = cfg["semiring"] == "complex-lse-sum"
    shape = draw(st.sampled_from(["single", "single", "single", "product"]))
    kw = dict(input_types=("pol",), cx=cx, max_K=3, deg_max=3, max_id=24)
    if shape == "product":
        bases = draw(gen.sd_pair(n=2, skeleton=True, max_reps=2, kron_max_out=9, max_vars=3, **dict(kw, max_K=2)))
        pipe = [{"op": "base", "i": 0}, {"op": "base", "i": 1}, {"op": "multiply", "a": 0, "b": 1}]
    else:
        bases = [draw(gen.sd_circuit(max_vars=5 if big else 4, min_vars=1, same_scope_outputs=True,
                                     p_identity=0.15, **kw))]
        pipe = [{"op": "base", "i": 0}]
    pipe.append({"op": "differentiate", "a": len(pipe) - 1, "order": draw(st.sampled_from([1, 1, 2, 3]))})
    return dict(cfg, bases=bases, pipe=pipe, shape=shape)


def strategy(tier):
    return _case(tier)


def run_case(case):
    P = opcheck.prepare(case, refuse=())
    last = len(P.pipe) - 1
    X = opcheck.draw_X(P.domains, case["xseed"], case["B"])
    n = P.pipe[last]
    scope = sorted(P.scopes[n["a"]])
    # number of outputs: O * (|scope| + 1)
    O = len(list(P.scs[n["a"]].outputs))
    got_O = len(list(P.target.outputs))
    if got_O != O * (len(scope) + 1):
        raise Violation("number-of-outputs", "num-outputs", f"{got_O} outputs, expected {O}*({len(scope)}+1)")
    sig = f"{case['shape']}:{opcheck.feat(case)}:"
    # the oracle for derivatives of products interpolates a degree <= 6 polynomial: its own rounding is ~1e-9
    res = opcheck.compare_node(P, last, X, "derivative-vs-exact", sig=sig,
                               rtol=1e-7 if case["shape"] == "product" else 1e-9)
    classes = opcheck.pipe_classes(case) + opcheck.base_classes(case) + [
        f"shape:{case['shape']}", f"order:{n['order']}", f"nvars:{len(scope)}", f"B:{case['B']}"]
    # second, independent route: autograd of the compiled operand (k = 1, real, linear space)
    if res == "ok" and n["order"] == 1 and case["semiring"] == "sum-product" and case["shape"] == "single" and scope:
        from vlib.runner import sut

        with sut("compile-operand"):
            cop = P.comp.compile(P.scs[n["a"]])
        xt = torch.from_numpy(np.ascontiguousarray(X)).clone().requires_grad_(True)
        with sut("evaluate-operand"):
            y0 = cop(xt)  # (B, O, K)
        yd, _ = opcheck.eval_node(P, last, X)
        _, M = P.oracle.value_with_mag(last, X)
        Bn, _, K = y0.shape
        for o in range(O):
            for k in range(K):
                g, = torch.autograd.grad(y0[:, o, k].sum(), xt, retain_graph=True)
                g = g.numpy()
                for j, v in enumerate(scope):
                    pos = o * (len(scope) + 1) + j
                    msg = tol.mismatch(yd[:, pos, k], g[:, v], M[:, pos, k], rtol=1e-7)
                    if msg:
                        raise Violation("derivative-vs-autograd", sig + "autograd", f"output {o} var {v}: {msg}")
        classes.append("autograd-cross-check")
    big_id = bool(scope) and max(scope) >= 8
    ar3 = any(L["t"] in ("had", "kro") and len(L["in"]) >= 3 for s in case["bases"] for L in s["layers"])
    if big_id:
        classes.append("var-id>=8")
    if scope and scope != list(range(len(scope))):
        classes.append("non-contiguous")
    if res != "ok":
        classes.append(res)
    nt = res == "ok" and len(scope) >= 2 and (big_id or ar3 or n["order"] >= 2)
    return {"nontrivial": nt, "classes": sorted(set(classes))}
