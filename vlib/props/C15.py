"""C15 — sampling draws from the distribution the circuit encodes."""
from __future__ import annotations

import itertools

import numpy as np
import torch
from hypothesis import strategies as st
from scipy import stats

from vlib import gen, harness, ref, tie
from vlib.runner import Refused, Violation, sut
from vlib.spec import build, pk, spec_scope

ID = "C15"
BUDGET = {"quick": 800, "thorough": 48000}
N_SAMPLES = 20000
P_THRESHOLD = 1e-9
RULE = ("Generated: normalised monotonic smooth&decomposable circuits over 1..4 discrete variables numbered 0..D-1 "
        "(categorical with 2..3 categories, probs via softmax or constant rows with exact zeros; binomial n <= 2), "
        "Hadamard and Kronecker products, arity-1 / dense n-ary / mixing sums with softmax or constant stochastic "
        "weights (exact zeros => structural zeros), one output unit; plus cp / cp-t / tucker region-graph circuits "
        "built by the library's own templates; x fold x optimize x torch seed; N = 20000 samples. Oracle: exact "
        "joint table from the numpy reference (must sum to 1): (i) samples have shape (N, D) with integer in-domain "
        "values, (ii) no sample has reference probability 0, (iii) Pearson chi-square of the joint counts (cells "
        "with expectation < 25 pooled; a pooled cell that is still small is merged into a large one), violation iff p < 1e-9. TypeError 'sampling not supported' is a documented "
        "refusal. Non-trivial = sampled and (a sum of arity > 1, or > 2 states for some variable, or a Kronecker "
        "layer) and the joint is not uniform; distinct = hash of case.")
ASSUMPTIONS = ["statistical oracle: false-alarm probability 1e-9 per case; defects moving the joint by < ~2% in total "
               "variation are invisible at N = 20000",
               "the query documents scopes 0..D-1 and a single output unit; generated circuits respect that"]


def _stoch_rows(draw, rows, cols):
    """Constant row-stochastic matrix with some exact zeros."""
    out = []
    for _ in range(rows):
        w = [draw(st.sampled_from([0, 0, 1, 2, 3])) for _ in range(cols)]
        if sum(w) == 0:
            w[draw(st.integers(0, cols - 1))] = 1
        s = float(sum(w))
        out.append([x / s for x in w])
    return out


@st.composite
def _sd_case(draw, tier):
    nv = draw(st.integers(1, 4 if tier == "thorough" else 3))
    b = gen.SDBuilder(draw, input_types=("cat", "bin"), nonneg=True, max_K=3, allow_kron=True, max_parts=2,
                      sum_kinds=["softmax"], kron_max_out=9, ncat_max=3, leaf_sum_p=0.3)
    root = b.build(list(range(nv)), draw(st.integers(1, 2)))
    root = b.sum_over([root], 1) if b.units(root) != 1 or draw(st.booleans()) else root
    layers = b.layers
    from vlib.spec import spec_units

    units = spec_units({"layers": layers})
    for i, L in enumerate(layers):
        if L["t"] == "sum":
            Ki = units[L["in"][0]]
            H = len(L["in"])
            if L["p"]["k"].startswith("mix:"):
                L["p"] = pk("mix:softmax", axis=-1)
                if draw(st.integers(0, 3)) == 0:
                    L["p"] = pk("mix:constv", value=_stoch_rows(draw, L["K"], H))
            elif draw(st.integers(0, 3)) == 0:
                L["p"] = pk("constv", value=_stoch_rows(draw, L["K"], Ki * H))
            else:
                L["p"] = pk("softmax", axis=-1)
        elif L["t"] == "cat":
            L["p"] = pk("constv", value=_stoch_rows(draw, L["K"], L["n"])) if draw(st.integers(0, 3)) == 0 \
                else pk("softmax", axis=-1)
        elif L["t"] == "bin":
            L["p"] = pk("sigmoid")
    spec = {"layers": layers, "outputs": [root], "_domains": {str(k): list(v) for k, v in b.domains.items()}}
    return {"kind": "sd", "spec": spec}


@st.composite
def _rg_case(draw, tier):
    nv = draw(st.integers(2, 4))
    return {"kind": "rg", "nv": nv,
            "rg": draw(st.sampled_from(["random-binary-tree", "linear-tree", "fully-factorized"])),
            "reps": draw(st.integers(1, 2)), "sp": draw(st.sampled_from(["cp", "cp-t", "tucker"])),
            "units": draw(st.integers(1, 3)), "ncat": draw(st.integers(2, 3)), "rgseed": draw(st.integers(0, 99)),
            "input": draw(st.sampled_from(["categorical", "binomial"])),
            "mixing": draw(st.booleans())}


@st.composite
def _case(draw, tier):
    c = draw(st.one_of(_sd_case(tier), _sd_case(tier), _rg_case(tier)))
    c.update(fold=draw(st.booleans()), optimize=draw(st.booleans()), vseed=draw(st.integers(0, 2**20)),
             profile=draw(st.sampled_from(["normal", "wide"])), tseed=draw(st.integers(0, 2**20)))
    return c


def strategy(tier):
    return _case(tier)


def build_rg_circuit(c):
    from cirkit.templates import region_graph as RG
    from cirkit.templates.utils import Parameterization, name_to_input_layer_factory, parameterization_to_factory

    nv = c["nv"]
    if c["rg"] == "random-binary-tree":
        rg = RG.RandomBinaryTree(nv, depth=None, num_repetitions=c["reps"], seed=c["rgseed"])
    elif c["rg"] == "linear-tree":
        rg = RG.LinearTree(nv, num_repetitions=c["reps"], randomize=True, seed=c["rgseed"])
    else:
        rg = RG.FullyFactorized(nv, num_repetitions=c["reps"])
    if c["input"] == "categorical":
        inf = name_to_input_layer_factory("categorical", num_categories=c["ncat"],
                                          probs_factory=parameterization_to_factory(
                                              Parameterization(activation="softmax", initialization="normal")))
    else:
        inf = name_to_input_layer_factory("binomial", total_count=c["ncat"] - 1)
    wf = parameterization_to_factory(Parameterization(activation="softmax", initialization="normal"))
    kw = {}
    if c["mixing"]:
        from cirkit.symbolic.parameters import mixing_weight_factory

        kw["nary_sum_weight_factory"] = lambda shape: mixing_weight_factory(shape, param_factory=wf)
    return rg.build_circuit(input_factory=inf, sum_product=c["sp"], sum_weight_factory=wf, num_input_units=c["units"],
                            num_sum_units=c["units"], num_classes=1, **kw)


def run_case(case):
    from cirkit.backend.torch.compiler import TorchCompiler
    from cirkit.backend.torch.queries import SamplingQuery

    if case["kind"] == "sd":
        spec = {"layers": case["spec"]["layers"], "outputs": case["spec"]["outputs"]}
        sc = build(spec)
        dom = {v: d[1] for v, d in gen.domains_of(case["spec"]).items()}
        classes = harness.structure_classes(spec)
    else:
        with sut("template-build", refuse=(ValueError,)):
            sc = build_rg_circuit(case)
        dom = {v: case["ncat"] for v in range(case["nv"])}
        classes = [f"rg:{case['rg']}", f"sp:{case['sp']}", f"rg-mixing:{case['mixing']}", f"rg-input:{case['input']}"]
    scope = sorted(int(v) for v in sc.scope)
    D = len(scope)
    comp = TorchCompiler(semiring="lse-sum" if case["vseed"] % 2 else "sum-product", fold=case["fold"],
                         optimize=case["optimize"])
    with sut("compile"):
        cc = comp.compile(sc)
    tensors = tie.sym_tensors(sc)
    vals = tie.draw_values(tensors, case["vseed"], case["profile"])
    tie.write_values(comp, vals)
    # exact joint table
    states = list(itertools.product(*[range(dom[v]) for v in scope]))
    Xall = np.array(states, dtype=np.float64).reshape(len(states), D)
    p = np.real(ref.evaluate(sc, vals, Xall))[:, 0, 0]
    if not (np.all(p >= -1e-12) and abs(p.sum() - 1.0) < 1e-9):
        from vlib.runner import HarnessError

        raise HarnessError(f"generated circuit is not normalised: sum={p.sum()} min={p.min()}")
    p = np.clip(p, 0.0, None)
    feat = "+".join(f for f, on in (("fold", case["fold"]), ("opt", case["optimize"])) if on) or "plain"
    N = int(case.get("N", N_SAMPLES))
    with sut("sampling-query-constructor"):
        q = SamplingQuery(cc)
    torch.manual_seed(case["tseed"])
    try:
        with torch.no_grad():
            samples, _ = q(N)
    except TypeError as e:
        raise Refused(f"sampling: TypeError: {str(e)[:80]}") from e
    except Exception as e:  # pylint: disable=broad-except
        from vlib.runner import _cirkit_frame

        raise Violation("sampling-must-not-raise", f"sample:{type(e).__name__}@{_cirkit_frame(e)}",
                        f"{type(e).__name__}: {str(e)[:300]}") from e
    s = samples.detach().cpu().numpy()
    if s.shape != (N, D):
        raise Violation("sample-shape", f"{feat}:shape", f"{s.shape} expected {(N, D)}")
    if not np.all(s == np.round(s)):
        raise Violation("sample-domain", f"{feat}:non-integer", "")
    s = s.astype(np.int64)
    for j, v in enumerate(scope):
        if s[:, j].min() < 0 or s[:, j].max() >= dom[v]:
            raise Violation("sample-domain", f"{feat}:out-of-domain",
                            f"variable {v}: values in [{s[:, j].min()}, {s[:, j].max()}], domain size {dom[v]}")
    idx = np.ravel_multi_index(tuple(s[:, j] for j in range(D)), tuple(dom[v] for v in scope))
    counts = np.bincount(idx, minlength=len(states)).astype(np.float64)
    zero = p <= 1e-15
    if counts[zero].sum() > 0:
        k = int(np.argmax(counts * zero))
        raise Violation("sample-support", f"{feat}:zero-probability-sample",
                        f"{int(counts[zero].sum())} samples with probability 0, e.g. {states[k]} x{int(counts[k])}")
    exp = N * p
    # Pearson chi-square on cells with a large expectation only: cells with expectation < 25 are pooled, and a pooled
    # cell that is still small is merged into the smallest large cell (the chi-square tail is not valid for small
    # expectations: one sample in a cell with expectation 0.01 is a 1% event, not a 1e-22 one)
    MIN_EXP = 25.0
    big = exp >= MIN_EXP
    cells_o = list(counts[big])
    cells_e = list(exp[big])
    o_rest, e_rest = float(counts[~big].sum()), float(exp[~big].sum())
    if e_rest >= MIN_EXP:
        cells_o.append(o_rest)
        cells_e.append(e_rest)
    elif cells_e:
        j = int(np.argmin(cells_e))
        cells_o[j] += o_rest
        cells_e[j] += e_rest
    cells_o, cells_e = np.array(cells_o), np.array(cells_e)
    chi = float(np.sum((cells_o - cells_e) ** 2 / cells_e)) if len(cells_e) > 1 else 0.0
    dof = len(cells_e) - 1
    pval = float(stats.chi2.sf(chi, dof)) if dof > 0 else 1.0
    if pval < P_THRESHOLD:
        # which single-variable marginal is most off (helps reading the replay)
        worst = ""
        tab = p.reshape([dom[v] for v in scope])
        for j, v in enumerate(scope):
            m = tab.sum(axis=tuple(a for a in range(D) if a != j))
            emp = np.bincount(s[:, j], minlength=dom[v]) / N
            worst += f" var{v}: exact {np.round(m, 3).tolist()} empirical {np.round(emp, 3).tolist()};"
        raise Violation("sample-distribution", f"{feat}:chi-square", f"chi2={chi:.1f} dof={dof} p={pval:.2e};{worst}")
    classes += [f"fold:{case['fold']}", f"opt:{case['optimize']}", f"kind:{case['kind']}", f"D:{D}"]
    types = tie.layer_type_names(cc)
    classes += [f"compiled:{t}" for t in types if t in ("TorchCPTLayer", "TorchTuckerLayer", "TorchKroneckerLayer")]
    nary = any(getattr(l, "arity", 1) > 1 and type(l).__name__ in ("TorchSumLayer", "TorchCPTLayer") for l in cc.layers)
    if zero.any():
        classes.append("structural-zeros")
    uniform = np.allclose(p, p[0])
    nt = (not uniform) and (nary or max(dom.values()) > 2 or "TorchKroneckerLayer" in types)
    if nary:
        classes.append("nary-sum")
    return {"nontrivial": nt, "classes": sorted(set(classes))}
