"""C16 — region-graph constructions are valid and yield well-formed circuits."""
from __future__ import annotations

import json
import os
import tempfile

import numpy as np
import torch
from hypothesis import strategies as st

from vlib import defs
from vlib.runner import Refused, Violation, sut

ID = "C16"
BUDGET = {"quick": 1600, "thorough": 160000}
RULE = ("Generated: every construction algorithm with drawn arguments — RandomBinaryTree(n 1..10, depth None / "
        "0..ceil(log2 n), repetitions 1..3, seed), LinearTree(n, repetitions, ordering permutation / None, "
        "randomize, seed), FullyFactorized(n, repetitions), QuadTree(shape (C,H,W) in 1..2 x 1..4 x 1..4, splits "
        "2/4), QuadGraph(shape), PoonDomingos(shape, delta scalar / list / list of lists >= 1, max_depth), "
        "ChowLiuTree(generated categorical / Gaussian / mixed data, root, chunk_size, bins); then build_circuit "
        "with sum_product in {cp, cp-t, tucker} or explicit sum / product (Hadamard, Kronecker) factories, a single "
        "input factory or a per-scope mapping, unit counts, num_classes, mixing or dense n-ary weights. Oracle "
        "(set-based, vlib/defs.py): each root covers all variables; every partition's children are disjoint, "
        "non-empty and cover it; each partition has one parent; the structured-decomposability flag equals 'all "
        "partitions of one scope split it into the same set of sub-scopes'; dump -> load preserves the multiset of "
        "(region scope, child-scope sets), roots and flags; RegionGraph.is_compatible is symmetric (against a random "
        "binary tree over the same variables) and never reports a graph compatible with itself when some scope is "
        "split in two ways; the built circuit is smooth and decomposable by the "
        "independent definitions, has scope == rg.scope, is structured-decomposable whenever the region graph is, "
        "has one output per root with num_classes units; build_circuit must not raise for documented argument "
        "combinations. Non-trivial = a region with >= 2 partitions, or explicit factories, or n >= 5; distinct = "
        "hash of case.")
ASSUMPTIONS = ["ValueError from an algorithm for arguments outside its documented domain is a refusal",
               "tucker is generated with num_input_units == num_sum_units (documented precondition); cp-t also with different counts: then build_circuit must succeed whenever no partition combines a leaf region with an inner region, and may refuse with ValueError otherwise"]


@st.composite
def _case(draw, tier):
    big = tier == "thorough"
    alg = draw(st.sampled_from(["rbt", "rbt", "linear", "linear", "ff", "quadtree", "quadgraph", "pd", "clt", "clt"]))
    c = {"alg": alg}
    if alg == "rbt":
        n = draw(st.integers(1, 12 if big else 10))
        md = int(np.ceil(np.log2(n))) if n > 1 else 0
        c.update(n=n, depth=draw(st.one_of(st.none(), st.integers(0, md))), reps=draw(st.integers(1, 3)),
                 seed=draw(st.integers(0, 10**6)))
    elif alg == "linear":
        n = draw(st.integers(1, 8))
        c.update(n=n, reps=draw(st.integers(1, 3)),
                 ordering=draw(st.one_of(st.none(), st.permutations(list(range(n))))),
                 randomize=draw(st.booleans()), seed=draw(st.integers(0, 10**6)))
    elif alg == "ff":
        c.update(n=draw(st.integers(1, 8)), reps=draw(st.integers(1, 3)))
    elif alg in ("quadtree", "quadgraph"):
        c.update(shape=[draw(st.integers(1, 2)), draw(st.integers(1, 5 if big else 4)),
                        draw(st.integers(1, 5 if big else 4))], splits=draw(st.sampled_from([2, 4])))
    elif alg == "pd":
        shape = [draw(st.integers(1, 2)), draw(st.integers(1, 4)), draw(st.integers(1, 4))]
        dk = draw(st.sampled_from(["scalar", "list", "lol"]))
        dv = st.sampled_from([1, 2, 3, 1.5, 2.5])
        if dk == "scalar":
            delta = draw(dv)
        elif dk == "list":
            delta = draw(st.lists(dv, min_size=1, max_size=2))
        else:
            delta = [[draw(dv), draw(dv)] for _ in range(draw(st.integers(1, 2)))]
        c.update(shape=shape, delta=delta, max_depth=draw(st.one_of(st.none(), st.integers(1, 3))))
    else:
        nf = draw(st.integers(2, 6))
        kind = draw(st.sampled_from(["categorical", "gaussian", "mixed"]))
        c.update(nf=nf, ns=draw(st.integers(20, 60)), kind=kind, ncat=draw(st.integers(2, 4)),
                 dseed=draw(st.integers(0, 10**6)), root=draw(st.one_of(st.none(), st.integers(0, nf - 1))),
                 chunk=draw(st.one_of(st.none(), st.integers(1, 8))),
                 bins=draw(st.booleans()),
                 mask=[draw(st.booleans()) for _ in range(nf)])
    # build_circuit arguments
    mode = draw(st.sampled_from(["cp", "cp-t", "tucker", "factories-had", "factories-kro"]))
    units = draw(st.integers(1, 3))
    c["build"] = {"mode": mode, "num_input_units": units if mode in ("cp-t", "tucker", "factories-had",
                                                                      "factories-kro") else draw(st.integers(1, 3)),
                  "num_sum_units": units, "num_classes": draw(st.integers(1, 3)),
                  "input": draw(st.sampled_from(["categorical", "gaussian", "embedding"])),
                  "per_scope": draw(st.booleans()), "mixing": draw(st.booleans())}
    if mode == "factories-kro" or mode == "tucker":
        c["build"]["num_sum_units"] = c["build"]["num_input_units"] = min(units, 2)
    if mode == "cp-t" and draw(st.booleans()):
        # cp-t with different unit counts is accepted whenever no partition mixes leaf and inner regions
        c["build"]["num_input_units"] = draw(st.integers(1, 3))
    return c


def strategy(tier):
    return _case(tier)


def make_rg(c):
    from cirkit.templates import region_graph as RG

    a = c["alg"]
    if a == "rbt":
        return RG.RandomBinaryTree(c["n"], depth=c["depth"], num_repetitions=c["reps"], seed=c["seed"]), c["n"]
    if a == "linear":
        o = None if c["ordering"] is None else list(c["ordering"])
        return RG.LinearTree(c["n"], num_repetitions=c["reps"], ordering=o, randomize=c["randomize"],
                             seed=c["seed"]), c["n"]
    if a == "ff":
        return RG.FullyFactorized(c["n"], num_repetitions=c["reps"]), c["n"]
    if a == "quadtree":
        return RG.QuadTree(tuple(c["shape"]), num_patch_splits=c["splits"]), int(np.prod(c["shape"]))
    if a == "quadgraph":
        return RG.QuadGraph(tuple(c["shape"])), int(np.prod(c["shape"]))
    if a == "pd":
        return RG.PoonDomingos(tuple(c["shape"]), delta=c["delta"], max_depth=c["max_depth"]), int(np.prod(c["shape"]))
    rng = np.random.default_rng(c["dseed"])
    nf, ns = c["nf"], c["ns"]
    z = rng.normal(size=(ns, 1))
    if c["kind"] == "categorical":
        data = torch.from_numpy(((z + rng.normal(size=(ns, nf))) > 0).astype(np.int64) * (c["ncat"] - 1)
                                - rng.integers(0, 2, size=(ns, nf)) * (c["ncat"] > 2)).clamp(0, c["ncat"] - 1)
        kw = {}
        if c["bins"] and c["ncat"] >= 4:
            kw = {"num_categories": c["ncat"], "num_bins": 2}
        return RG.ChowLiuTree(data, "categorical", root=c["root"], chunk_size=c["chunk"], **kw), nf
    if c["kind"] == "gaussian":
        data = torch.from_numpy(z + rng.normal(size=(ns, nf)) * np.linspace(0.5, 1.5, nf))
        return RG.ChowLiuTree(data, "gaussian", root=c["root"]), nf
    cols = []
    for j in range(nf):
        if c["mask"][j]:
            cols.append(((z[:, 0] + rng.normal(size=ns)) > 0).astype(np.float64))
        else:
            cols.append(z[:, 0] + rng.normal(size=ns))
    data = torch.from_numpy(np.stack(cols, axis=1))
    types = ["categorical" if m else "gaussian" for m in c["mask"]]
    return RG.ChowLiuTree(data, types, root=c["root"]), nf


def rg_signature(rg):
    sig = []
    for r in rg.region_nodes:
        kids = sorted(tuple(sorted(tuple(sorted(int(v) for v in ch.scope)) for ch in rg.partition_inputs(p)))
                      for p in rg.region_inputs(r))
        sig.append((tuple(sorted(int(v) for v in r.scope)), tuple(kids)))
    return sorted(sig)


def rg_is_sd(rg):
    splits = {}
    for p in rg.partition_nodes:
        key = frozenset(int(v) for v in p.scope)
        splits.setdefault(key, set()).add(frozenset(frozenset(int(v) for v in ch.scope) for ch in rg.partition_inputs(p)))
    return all(len(s) == 1 for s in splits.values())


def run_case(case):
    from cirkit.symbolic.layers import (CategoricalLayer, EmbeddingLayer, GaussianLayer, HadamardLayer, KroneckerLayer,
                                        SumLayer)
    from cirkit.templates.region_graph import RegionGraph
    from cirkit.utils.scope import Scope

    alg = case["alg"]
    try:
        rg, n = make_rg(case)
    except ValueError as e:
        raise Refused(f"{alg}: ValueError: {str(e)[:80]}") from e
    except Exception as e:  # pylint: disable=broad-except
        from vlib.runner import _cirkit_frame

        raise Violation("algorithm-must-not-raise", f"{alg}:{type(e).__name__}@{_cirkit_frame(e)}",
                        f"{type(e).__name__}: {str(e)[:300]}") from e
    full = frozenset(range(n))
    classes = [f"alg:{alg}", f"n:{min(n, 12)}"]
    # ---- validity of the region graph
    roots = list(rg.outputs)
    if not roots:
        raise Violation("rg-root", f"{alg}:no-root", "")
    for r in roots:
        if frozenset(int(v) for v in r.scope) != full:
            raise Violation("rg-root", f"{alg}:root-does-not-cover-all-variables",
                            f"root scope {sorted(r.scope)} vs 0..{n - 1}")
    multi = False
    for p in rg.partition_nodes:
        kids = [frozenset(int(v) for v in ch.scope) for ch in rg.partition_inputs(p)]
        if any(not k for k in kids) or sum(len(k) for k in kids) != len(frozenset().union(*kids)) \
                or frozenset().union(*kids) != frozenset(int(v) for v in p.scope) or len(kids) < 2:
            raise Violation("rg-partition", f"{alg}:invalid-partition", f"{sorted(p.scope)} -> {[sorted(k) for k in kids]}")
        parents = list(rg.partition_outputs(p))
        if len(parents) != 1 or parents[0].scope != p.scope:
            raise Violation("rg-partition", f"{alg}:partition-parent", f"{len(parents)} parents")
    for r in rg.region_nodes:
        multi |= len(rg.region_inputs(r)) >= 2
    sd_def = rg_is_sd(rg)
    with sut("rg-flags"):
        sd_flag = bool(rg.is_structured_decomposable)
    if sd_flag != sd_def:
        raise Violation("rg-sd-flag", f"{alg}:sd-flag={sd_flag}-definition={sd_def}", "")
    classes.append(f"rg-sd:{sd_def}")
    # region-graph level compatibility (C08 anchors): symmetric, and never reported for a graph with itself
    # unless every scope is split in one way only
    from cirkit.templates import region_graph as RGm

    with sut("rg-is-compatible"):
        self_c = bool(rg.is_compatible(rg))
    if self_c and not sd_def:
        raise Violation("rg-compatible-soundness", f"{alg}:self-compatible-but-two-splits-of-one-scope", "")
    if n <= 12:
        other = RGm.RandomBinaryTree(n, num_repetitions=1, seed=case.get("seed", case.get("dseed", 7)) + 1) \
            if n > 1 else RGm.FullyFactorized(n)
        with sut("rg-is-compatible"):
            ab, ba = bool(rg.is_compatible(other)), bool(other.is_compatible(rg))
        if ab != ba:
            raise Violation("rg-compatible-symmetric", f"{alg}:is_compatible-asymmetric", f"ab={ab} ba={ba}")
        classes.append(f"rg-compatible-with-random-tree:{ab}")
    # ---- dump / load round trip
    fd, path = tempfile.mkstemp(suffix=".json", prefix="c16_")
    os.close(fd)
    try:
        with sut("rg-dump"):
            rg.dump(path)
        with sut("rg-load"):
            rg2 = RegionGraph.load(path)
    finally:
        if os.path.exists(path):
            os.unlink(path)
    if rg_signature(rg2) != rg_signature(rg):
        raise Violation("rg-dump-load", f"{alg}:structure-differs-after-reload", "")
    if sorted(tuple(sorted(r.scope)) for r in rg2.outputs) != sorted(tuple(sorted(r.scope)) for r in rg.outputs):
        raise Violation("rg-dump-load", f"{alg}:roots-differ-after-reload", "")
    if bool(rg2.is_structured_decomposable) != sd_flag or bool(rg2.is_omni_compatible) != bool(rg.is_omni_compatible):
        raise Violation("rg-dump-load", f"{alg}:flags-differ-after-reload", "")
    # ---- build a circuit
    b = case["build"]
    mode = b["mode"]
    Ki, Ks, C = b["num_input_units"], b["num_sum_units"], b["num_classes"]

    def infac(scope, K):
        if b["input"] == "categorical":
            return CategoricalLayer(scope, K, num_categories=2)
        if b["input"] == "gaussian":
            return GaussianLayer(scope, K)
        return EmbeddingLayer(scope, K, num_states=2)

    input_factory = infac
    if b["per_scope"]:
        input_factory = {r.scope: infac for r in rg.inputs}
    from cirkit.symbolic.parameters import mixing_weight_factory
    from cirkit.templates.utils import Parameterization, parameterization_to_factory

    wf = parameterization_to_factory(Parameterization(activation="softmax", initialization="normal"))
    kw = dict(input_factory=input_factory, num_input_units=Ki, num_sum_units=Ks, num_classes=C)
    if b["mixing"]:
        kw["nary_sum_weight_factory"] = lambda shape: mixing_weight_factory(shape, param_factory=wf)
    if mode in ("cp", "cp-t", "tucker"):
        kw.update(sum_product=mode, sum_weight_factory=wf)
    else:
        kw.update(sum_factory=lambda ki, ko: SumLayer(ki, ko, weight_factory=wf),
                  prod_factory=(lambda k, ar: HadamardLayer(k, arity=ar)) if mode == "factories-had"
                  else (lambda k, ar: KroneckerLayer(k, arity=ar)))
        if b["mixing"]:
            kw.pop("nary_sum_weight_factory")
    max_ar = max([len(rg.partition_inputs(p)) for p in rg.partition_nodes] + [1])
    if mode in ("tucker", "factories-kro") and Ks ** max_ar > 64:
        raise Refused("kronecker too large for this region graph (harness bound)")
    refuse = ()
    if mode == "cp-t" and Ki != Ks:
        leaves = set(rg.inputs)
        mixed = any(len({ch in leaves for ch in rg.partition_inputs(p)}) > 1 for p in rg.partition_nodes)
        classes.append(f"cp-t-unequal-units:{'mixed-levels' if mixed else 'same-levels'}")
        if mixed:
            # a Hadamard product of Ki-unit leaves and Ks-unit inner regions does not exist: refusal
            refuse = (ValueError,)
    with sut(f"build_circuit[{mode}]", refuse=refuse, sig=""):
        sc = rg.build_circuit(**kw)
    view = defs.view_from_circuit(sc)
    if not (defs.is_smooth(view) and defs.is_decomposable(view)):
        raise Violation("circuit-structure", f"{alg}:{mode}:not-smooth-decomposable",
                        f"smooth={defs.is_smooth(view)} decomposable={defs.is_decomposable(view)}")
    if not (sc.is_smooth and sc.is_decomposable):
        raise Violation("circuit-structure", f"{alg}:{mode}:flags", "")
    if frozenset(int(v) for v in sc.scope) != full:
        raise Violation("circuit-scope", f"{alg}:{mode}:scope", f"{sorted(sc.scope)}")
    if sd_def and not (defs.same_split_everywhere(view) and sc.is_structured_decomposable):
        raise Violation("circuit-structure", f"{alg}:{mode}:not-structured-decomposable",
                        f"definition={defs.same_split_everywhere(view)} flag={sc.is_structured_decomposable}")
    outs = list(sc.outputs)
    if len(outs) != len(roots):
        raise Violation("circuit-outputs", f"{alg}:{mode}:num-outputs", f"{len(outs)} vs {len(roots)} roots")
    # a single-region graph (n == 1 or no partition) yields the input layer itself unless factories add a sum
    has_inner = any(True for _ in rg.partition_nodes)
    for o in outs:
        if (has_inner or mode.startswith("factories")) and o.num_output_units != C:
            raise Violation("circuit-outputs", f"{alg}:{mode}:output-units", f"{o.num_output_units} vs num_classes {C}")
    classes += [f"build:{mode}", f"input:{b['input']}", f"per-scope:{b['per_scope']}", f"classes:{C}"]
    if multi:
        classes.append("region-with->=2-partitions")
    nt = multi or mode.startswith("factories") or n >= 5
    return {"nontrivial": nt, "classes": classes}
