"""C10 — derived circuits share parameters with their operands at all times (history-based)."""
from __future__ import annotations

import io
import itertools

import numpy as np
import torch
from hypothesis import strategies as st

from vlib import gen, opcheck, ops, tie, tol
from vlib.runner import Violation, sut
from vlib.spec import build

ID = "C10"
BUDGET = {"quick": 640, "thorough": 16000}
RULE = ("Generated: 1..2 skeleton-sharing base circuits (<= 3 variables; categorical / embedding / Gaussian inputs, or "
        "polynomial inputs) and an operator pipeline of 1..3 operators (integrate, multiply, differentiate, conjugate, "
        "evidence, concatenate) x semiring x fold x optimize, plus a drawn history of 3..10 (quick) / ..30 (thorough) "
        "steps from {compile the next pipeline node in the SAME compiler, perturb all learnable tensors of a base "
        "circuit in place, one SGD / Adam step on a scalar loss of some compiled circuit (update rescaled to max 0.1), "
        "reset_parameters of a base circuit, save / load its state_dict, evaluate}. After EVERY step and for EVERY "
        "derived circuit compiled so far, without recompilation: (i) its defining relation to the CURRENT compiled "
        "outputs of its operands (integrate: brute-force sum / quadrature over Z of the operand's compiled outputs; "
        "multiply: product in Kronecker order; differentiate: autograd of the operand; conjugate; evidence: operand on "
        "overwritten columns; concatenate: stack) and (ii) agreement with the numpy reference at the current values "
        "(read back through the state map); (iii) compiling a derived circuit leaves every operand tensor bit-identical; (iv) storage: the learnable tensors reachable from a derived circuit are a "
        "subset (by storage) of those of the base circuits, i.e. no new learnable parameters. Non-trivial = a history "
        "with >= 1 update after the compilation of a derived circuit and a relation checked after it; distinct = hash "
        "of case.")
ASSUMPTIONS = ["float64; relations compared with |a - b| <= 1e-8 * M, M = magnitude bound of the reference at the current "
               "values; steps that make an operand's own output non-finite are undone and counted",
               "differentiate relation uses first-order autograd of the compiled operand (order-1 nodes only)"]

UPD = ["perturb", "perturb", "sgd", "adam", "reset", "save", "load", "evaluate"]


@st.composite
def _case(draw, tier):
    big = tier == "thorough"
    c = draw(opcheck.pipeline_strategy(max_ops=3, max_vars=3, max_K=2))
    # order-1 differentiation only (autograd relation)
    for n in c["pipe"]:
        if n["op"] == "differentiate":
            n["order"] = 1
    n_derived = sum(1 for n in c["pipe"] if n["op"] != "base")
    steps = []
    for _ in range(draw(st.integers(3, 30 if big else 10))):
        k = draw(st.sampled_from(["derive", "derive"] + UPD))
        steps.append([k, draw(st.integers(0, 7)), draw(st.integers(0, 2**16))])
    # make sure every pipeline node gets compiled and at least one update follows
    steps += [["derive", 0, 0]] * n_derived
    steps.append([draw(st.sampled_from(["perturb", "sgd", "adam", "reset"])), draw(st.integers(0, 7)), draw(st.integers(0, 2**16))])
    steps.append(["evaluate", 0, 0])
    c["steps"] = steps
    c["B"] = draw(st.sampled_from([1, 2, 3]))
    return c


def strategy(tier):
    return _case(tier)


def run_case(case):
    from cirkit.backend.torch.compiler import TorchCompiler

    base_specs = [{"layers": s["layers"], "outputs": s["outputs"]} for s in case["bases"]]
    base_scs = [build(s) for s in base_specs]
    pipe = case["pipe"]
    sem = case["semiring"]
    scs = ops.build_pipeline(pipe, base_scs)  # symbolic operators applied up-front; compilation is part of the history
    domains = opcheck.domains_of_case(case)
    comp = TorchCompiler(semiring=sem, fold=case["fold"], optimize=case["optimize"])
    torch.manual_seed(case["vseed"])
    nb = len(base_scs)
    ccs = {}
    for i in range(nb):
        with sut("compile-base"):
            ccs[i] = comp.compile(base_scs[i])
    tensors = tie.sym_tensors(*base_scs)
    per_base = [tie.sym_tensors(sc) for sc in base_scs]
    tie.write_values(comp, tie.draw_values(tensors, case["vseed"], case["profile"]))
    scopes = ops.node_scopes(pipe, base_specs)
    X = opcheck.draw_X(domains, case["xseed"], case["B"])
    feat = opcheck.feat(case)
    derived_order = [i for i, n in enumerate(pipe) if n["op"] != "base"]
    next_derived = 0
    saved = {}
    stats = {"updates_after_derive": 0, "checked_after_update": 0, "discarded": 0}
    kinds = set()

    def out(i, Xv, grad=False):
        """Compiled output of node i in linear space (numpy) at rows Xv; empty scope broadcast."""
        cc = ccs[i]
        with sut("evaluate"):
            with torch.no_grad():
                y = cc(torch.from_numpy(np.ascontiguousarray(Xv))) if scopes[i] else cc()
        y = tol.lin(y, sem)
        if not scopes[i]:
            y = np.broadcast_to(y[None], (Xv.shape[0],) + y.shape)
        return y

    def learnable_ptrs(cc):
        return {p.data_ptr() for p in cc.parameters() if p.requires_grad}

    def check_all(after):
        vals = tie.read_values(comp, tensors)
        oracle = ops.PipeOracle(pipe, base_specs, base_scs, vals, domains, max_grid=20000)
        base_ptrs = set()
        for t in tensors:
            if t.learnable:
                node, _ = comp.state.retrieve_compiled_parameter(t)
                base_ptrs.add(node._ptensor.data_ptr())
        for i in sorted(ccs):
            if pipe[i]["op"] == "base":
                continue
            n = pipe[i]
            op = n["op"]
            sig = f"{op}:{feat}:after-{after}:"
            extra = learnable_ptrs(ccs[i]) - base_ptrs
            if extra:
                raise Violation("no-new-learnable-parameters", sig + "new-learnable-tensor",
                                f"{len(extra)} learnable tensors of the derived circuit are not tensors of the operands")
            try:
                r, M = oracle.value_with_mag(i, X)
            except ops.GridTooLarge:
                continue
            if tol.degenerate(r, M):
                continue
            y = out(i, X)
            rt = 1e-7 if opcheck_cont(pipe, scopes, domains) else 1e-8
            msg = tol.mismatch(y, r, M, rtol=rt)
            if msg:
                raise Violation("derived-vs-reference-at-current-values", sig + "reference", msg)
            # defining relation to the CURRENT compiled outputs of the operands
            rel = None
            if op == "conjugate":
                rel = np.conj(out(n["a"], X))
            elif op == "evidence":
                X2 = X.copy()
                for v, x in n["obs"]:
                    X2[:, int(v)] = x
                rel = out(n["a"], X2)
            elif op == "concatenate":
                rel = np.concatenate([out(j, X) for j in n["as"]], axis=1)
            elif op == "multiply":
                a, b = out(n["a"], X), out(n["b"], X)
                B, O1, K1 = a.shape
                _, O2, K2 = b.shape
                rel = (a[:, :, None, :, None] * b[:, None, :, None, :]).reshape(B, O1 * O2, K1 * K2)
            elif op == "integrate":
                Z = sorted(scopes[n["a"]] if n.get("Z") is None else n["Z"])
                g = oracle.grid(Z, oracle._nfactors[n["a"]])
                if g is not None:
                    P, W = g
                    Xg = np.repeat(X[:, None, :], P.shape[0], axis=1)
                    for c, v in enumerate(Z):
                        Xg[:, :, v] = P[None, :, c]
                    ya = out(n["a"], Xg.reshape(-1, X.shape[1]))
                    ya = ya.reshape((X.shape[0], P.shape[0]) + ya.shape[1:])
                    rel = np.tensordot(ya, W, axes=([1], [0]))
            elif op == "differentiate" and sem == "sum-product" and scopes[n["a"]]:
                xt = torch.from_numpy(X.copy()).requires_grad_(True)
                ya = ccs[n["a"]](xt)
                Bn, O, K = ya.shape
                sc_a = sorted(scopes[n["a"]])
                blocks = []
                for o in range(O):
                    per_v = np.zeros((Bn, len(sc_a), K))
                    for k in range(K):
                        (gx,) = torch.autograd.grad(ya[:, o, k].sum(), xt, retain_graph=True)
                        per_v[:, :, k] = gx.numpy()[:, sc_a]
                    blocks += [per_v[:, j] for j in range(len(sc_a))] + [ya[:, o].detach().numpy()]
                rel = np.stack(blocks, axis=1)
                rt = max(rt, 1e-7)
            if rel is not None:
                msg = tol.mismatch(y, rel, M, rtol=rt)
                if msg:
                    raise Violation("derived-vs-compiled-operands", sig + "relation", msg)
            if after in ("perturb", "sgd", "adam", "reset", "load"):
                stats["checked_after_update"] += 1

    def opcheck_cont(pipe_, scopes_, domains_):
        for n in pipe_:
            if n["op"] == "integrate":
                Z = n["Z"] if n.get("Z") is not None else sorted(scopes_[n["a"]])
                if any(domains_[v][0] == "c" for v in Z):
                    return True
        return False

    def snapshot():
        return [(t, v) for t, v in tie.read_values(comp, tensors).items()]

    def restore(snap):
        tie.write_values(comp, dict(snap))

    def operands_finite():
        for i in sorted(ccs):
            y = out(i, X)
            if not np.all(np.isfinite(y)):
                return False
        return True

    for kind, a, seed in case["steps"]:
        kinds.add(kind)
        if kind == "derive":
            if next_derived < len(derived_order):
                i = derived_order[next_derived]
                next_derived += 1
                before = tie.read_values(comp, tensors)
                with sut("compile-derived"):
                    ccs[i] = comp.compile(scs[i])
                after = tie.read_values(comp, tensors)
                for t in tensors:  # compiling a derived circuit must not touch the operands' parameters
                    if not np.array_equal(before[t], after[t], equal_nan=True):
                        raise Violation("compile-derived-leaves-operands-untouched",
                                        f"{pipe[i]['op']}:{feat}:operand-parameters-changed-by-compilation",
                                        f"a tensor of shape {t.shape} of an operand changed while compiling the derived circuit")
                # operands compiled implicitly are part of the pool as well
                for j in range(len(pipe)):
                    if j not in ccs and comp.is_compiled(scs[j]):
                        ccs[j] = comp.get_compiled_circuit(scs[j])
        elif kind in ("perturb", "sgd", "adam", "reset", "load"):
            b = a % nb
            snap = snapshot()
            if kind == "perturb":
                rng = np.random.default_rng(seed)
                with torch.no_grad():
                    for t in per_base[b]:
                        if not t.learnable:
                            continue
                        node, idx = comp.state.retrieve_compiled_parameter(t)
                        noise = rng.normal(size=t.shape) * 0.3
                        node._ptensor.data[idx] += torch.from_numpy(noise).to(node._ptensor.dtype)
            elif kind in ("sgd", "adam"):
                params = [p for p in ccs[b].parameters() if p.requires_grad]
                target = sorted(ccs)[seed % len(ccs)]
                if params:
                    for p in params:
                        p.grad = None
                    with sut("loss-forward"):
                        yt = ccs[target](torch.from_numpy(X)) if scopes[target] else ccs[target]()
                    loss = (yt.real if yt.is_complex() else yt).sum()
                    if loss.requires_grad and bool(torch.isfinite(loss)):
                        with sut("loss-backward"):
                            loss.backward()
                        gmax = max([float(p.grad.abs().max()) for p in params if p.grad is not None] + [0.0])
                        if np.isfinite(gmax) and gmax > 0:
                            for p in params:  # torch quirk: complex grads may be lazy conjugate views
                                if p.grad is not None:
                                    p.grad = p.grad.resolve_conj().clone()
                            opt = (torch.optim.SGD(params, lr=0.1 / gmax) if kind == "sgd"
                                   else torch.optim.Adam(params, lr=0.05))
                            opt.step()
            elif kind == "reset":
                torch.manual_seed(seed)
                with sut("reset_parameters"):
                    ccs[b].reset_parameters()
            elif kind == "load":
                if b in saved:
                    with sut("load_state_dict"):
                        ccs[b].load_state_dict(torch.load(io.BytesIO(saved[b])), strict=True)
            if not operands_finite():
                restore(snap)
                stats["discarded"] += 1
                continue
            if next_derived > 0:
                stats["updates_after_derive"] += 1
        elif kind == "save":
            b = a % nb
            buf = io.BytesIO()
            torch.save(ccs[b].state_dict(), buf)
            saved[b] = buf.getvalue()
        check_all(kind)
    classes = opcheck.pipe_classes(case) + [f"family:{case['family']}", f"step:{'+'.join(sorted(kinds))}"[:60]]
    classes += [f"step:{k}" for k in sorted(kinds)]
    classes = [c for c in classes if not c.startswith("step:") or "+" not in c]
    if stats["discarded"]:
        classes.append("discarded-nonfinite-step")
    nt = stats["updates_after_derive"] > 0 and stats["checked_after_update"] > 0
    return {"nontrivial": nt, "classes": sorted(set(classes))}
