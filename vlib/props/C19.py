"""C19 — saved parameters reproduce the circuit after reload (also derived circuits); every learnable
tensor appears exactly once in the state dictionary."""
from __future__ import annotations

import io

import numpy as np
import torch
from hypothesis import strategies as st

from vlib import gen, harness, opcheck, ops, tie
from vlib.runner import Violation, sut
from vlib.spec import build

ID = "C19"
BUDGET = {"quick": 960, "thorough": 40000}
RULE = ("Generated: a single circuit (every input type, constants, some tensors non-learnable, shared sub-circuits, "
        "multi-output) or an operator pipeline (1..3 operators incl. evidence layers and pointer parameters) x "
        "semiring x fold x optimize x values; a drawn history of 2..5 steps from {save, perturb, reset, load k}. "
        "Compiler A compiles the target (operands are compiled with it), values are written, the history is run "
        "(every 'load k' must restore the outputs recorded at 'save k' bit-identically); then a FRESH compiler B "
        "with the same flags compiles the same symbolic circuits (fresh random initial values), and for every "
        "snapshot load_state_dict(strict=True) of the saved dictionaries (operands and target) must succeed and "
        "make B's outputs bit-identical to the recorded ones. Exactly once: every learnable compiled tensor reached "
        "from a base circuit occurs under exactly one key of that circuit's state_dict (by storage). Non-trivial = "
        "(folded or optimised compilation with >= 2 tensors, or a derived circuit) and >= 1 reload compared; "
        "distinct = hash of case.")
ASSUMPTIONS = ["bit-identical comparison: same process, single thread, same flags, same op order",
               "state dictionaries round-trip through torch.save / torch.load on an in-memory buffer"]


def _unlearn(draw, spec):
    """Mark a few tensors non-learnable (drawn)."""
    for L in spec["layers"]:
        for k, v in L.items():
            if isinstance(v, dict) and "k" in v and v["k"] != "constv" and draw(st.integers(0, 5)) == 0:
                v["learn"] = False
    return spec


@st.composite
def _single(draw, tier):
    cfg = opcheck.draw_cfg(draw)
    sem = cfg["semiring"]
    kw = dict(max_vars=5 if tier == "thorough" else 4, max_K=3, with_const=True)
    if sem == "lse-sum":
        spec = draw(gen.sd_circuit(input_types=gen.NONNEG_INPUTS, nonneg=True, **kw))
    elif sem == "sum-product":
        spec = draw(gen.sd_circuit(input_types=gen.ALL_INPUTS, **kw))
    else:
        spec = draw(gen.sd_circuit(input_types=gen.ALL_INPUTS, cx=True, **kw))
    return dict(cfg, bases=[gen.unlearn(draw, spec)], pipe=[{"op": "base", "i": 0}], family="single")


@st.composite
def _case(draw, tier):
    c = draw(st.one_of(_single(tier), opcheck.pipeline_strategy(max_ops=3, max_vars=3)))
    steps = []
    nsaved = 0
    for _ in range(draw(st.integers(2, 5))):
        kinds = ["save", "perturb", "reset", "derive"] + (["load", "load"] if nsaved else [])
        k = draw(st.sampled_from(kinds))
        if k == "save":
            nsaved += 1
            steps.append(["save"])
        elif k == "load":
            steps.append(["load", draw(st.integers(0, nsaved - 1))])
        elif k == "derive":
            steps.append(["derive"])
        else:
            steps.append([k, draw(st.integers(0, 2**16))])
    if nsaved == 0:
        steps.append(["save"])
    c["steps"] = steps
    return c


def strategy(tier):
    return _case(tier)


def _save(ccs):
    out = []
    for cc in ccs:
        buf = io.BytesIO()
        torch.save(cc.state_dict(), buf)
        out.append(buf.getvalue())
    return out


def _load(ccs, blobs, what):
    for cc, b in zip(ccs, blobs):
        sd = torch.load(io.BytesIO(b))
        try:
            res = cc.load_state_dict(sd, strict=True)
        except Exception as e:  # pylint: disable=broad-except
            raise Violation("load-state-dict-strict", f"{what}:load-raises", f"{type(e).__name__}: {str(e)[:300]}") from e
        if res.missing_keys or res.unexpected_keys:
            raise Violation("load-state-dict-strict", f"{what}:key-mismatch",
                            f"missing {res.missing_keys[:3]} unexpected {res.unexpected_keys[:3]}")


def _outputs(ccs, scopes, X):
    ys = []
    with torch.no_grad():
        for cc, sc in zip(ccs, scopes):
            y = cc(torch.from_numpy(X)) if sc else cc()
            ys.append(y.detach().numpy().copy())
    return ys


def _same(a, b):
    return a.shape == b.shape and np.array_equal(a, b, equal_nan=True)


def run_case(case):
    from cirkit.backend.torch.compiler import TorchCompiler

    base_specs = [{"layers": s["layers"], "outputs": s["outputs"]} for s in case["bases"]]
    sem = case["semiring"]
    domains = opcheck.domains_of_case(case)
    X = opcheck.draw_X(domains, case["xseed"], case["B"])
    pipe = case["pipe"]
    scopes_all = ops.node_scopes(pipe, base_specs)
    feat = opcheck.feat(case)

    used = ops.used_bases(pipe)
    lazy = any(s[0] == "derive" for s in case["steps"]) and len(pipe) > len(base_specs)

    def compile_all(torch_seed, only_bases=False):
        torch.manual_seed(torch_seed)
        base_scs = [build(s) for s in base_specs]
        scs = ops.build_pipeline(pipe, base_scs)
        comp = TorchCompiler(semiring=sem, fold=case["fold"], optimize=case["optimize"])
        with sut("compile"):
            if only_bases:
                for b in used:
                    comp.compile(base_scs[b])
            else:
                comp.compile(scs[-1])
        idx = [i for i, sc in enumerate(scs) if comp.is_compiled(sc)]
        ccs = [comp.get_compiled_circuit(scs[i]) for i in idx]
        return base_scs, scs, comp, idx, ccs

    # with 'derive' steps in the history the derived circuits are compiled later, after values were set / loaded
    base_a, scs_a, comp_a, idx, ccs_a = compile_all(case["vseed"], only_bases=lazy)
    scopes = [scopes_all[i] for i in idx]
    tensors_a = tie.sym_tensors(*[base_a[i] for i in used])
    vals = tie.draw_values(tensors_a, case["vseed"], case["profile"])
    tie.write_values(comp_a, vals)

    # exactly once (base circuits): each learnable compiled tensor under exactly one key
    for bi in used:
        cc = comp_a.get_compiled_circuit(base_a[bi])
        learn_ptrs = {}
        for t in tie.sym_tensors(base_a[bi]):
            if t.learnable:
                node, _ = comp_a.state.retrieve_compiled_parameter(t)
                learn_ptrs[node._ptensor.data_ptr()] = 0
        for k, v in cc.state_dict().items():
            if v.data_ptr() in learn_ptrs:
                learn_ptrs[v.data_ptr()] += 1
        bad = {p: n for p, n in learn_ptrs.items() if n != 1}
        if bad:
            raise Violation("state-dict-exactly-once", f"{feat}:learnable-tensor-count",
                            f"{len(bad)} learnable tensors occur {sorted(set(bad.values()))} times in state_dict")

    snaps = []  # (blobs, outputs)
    reloads = 0
    steps = list(case["steps"])
    if lazy:
        steps.append(["derive"])  # the derived circuits are compiled at the latest before the fresh instance is built
    for step in steps:
        k = step[0]
        if k == "derive":
            if lazy and not comp_a.is_compiled(scs_a[-1]):
                with sut("evaluate"):
                    before = _outputs(ccs_a, scopes, X)
                with sut("compile-derived"):
                    comp_a.compile(scs_a[-1])
                with sut("evaluate"):
                    after = _outputs(ccs_a, scopes, X)
                for j, (a, b) in enumerate(zip(after, before)):
                    if not _same(a, b):
                        raise Violation("compile-derived-leaves-operands-untouched", f"{feat}:operand-changed-by-compiling-derived",
                                        f"outputs of circuit node {idx[j]} changed when a derived circuit was compiled "
                                        f"(max |diff| {np.nanmax(np.abs(a - b)):.3e})")
                idx = [i for i, sc in enumerate(scs_a) if comp_a.is_compiled(sc)]
                ccs_a = [comp_a.get_compiled_circuit(scs_a[i]) for i in idx]
                scopes = [scopes_all[i] for i in idx]
                snaps = []  # snapshots taken before cover fewer circuits: start over
            continue
        if k == "save":
            with sut("state_dict"):
                blobs = _save(ccs_a)
            with sut("evaluate"):
                snaps.append((blobs, _outputs(ccs_a, scopes, X)))
        elif k == "perturb":
            rng = np.random.default_rng(step[1])
            with torch.no_grad():
                for t in tensors_a:
                    node, i = comp_a.state.retrieve_compiled_parameter(t)
                    noise = rng.normal(size=t.shape) * 0.3
                    node._ptensor.data[i] += torch.from_numpy(noise).to(node._ptensor.dtype)
        elif k == "reset":
            torch.manual_seed(step[1])
            with sut("reset_parameters"):
                for cc in ccs_a:
                    cc.reset_parameters()
        else:
            if not snaps:
                continue  # snapshots were discarded by a later 'derive'
            blobs, ys = snaps[step[1] % len(snaps)]
            _load(ccs_a, blobs, f"{feat}:same-instance")
            with sut("evaluate"):
                got = _outputs(ccs_a, scopes, X)
            for j, (a, b) in enumerate(zip(got, ys)):
                if not _same(a, b):
                    raise Violation("reload-same-instance", f"{feat}:same-instance-differs",
                                    f"circuit node {idx[j]}: max |diff| {np.nanmax(np.abs(a - b)):.3e}")
            reloads += 1
    if not snaps:  # always at least one snapshot that covers every compiled circuit
        with sut("state_dict"):
            blobs = _save(ccs_a)
        with sut("evaluate"):
            snaps.append((blobs, _outputs(ccs_a, scopes, X)))
    # fresh instance with different initial values
    base_b, scs_b, comp_b, idx_b, ccs_b = compile_all(case["vseed"] + 977)
    if idx_b != idx:
        raise Violation("recompile-same-circuits", f"{feat}:compiled-set-differs", f"{idx} vs {idx_b}")
    # the fresh instance is used once at its own initial values before anything is loaded into it ("whatever its
    # fresh initial values"): a pure evaluation, so that anything cached by a forward pass would go stale below
    try:
        _outputs(ccs_b, scopes, X)
    except Exception:  # pylint: disable=broad-except
        pass  # priming only; evaluation errors are reported by the compared evaluations
    for blobs, ys in snaps:
        _load(ccs_b, blobs, f"{feat}:fresh-instance")
        with sut("evaluate"):
            got = _outputs(ccs_b, scopes, X)
        for j, (a, b) in enumerate(zip(got, ys)):
            if not _same(a, b):
                kind = "derived" if pipe[idx[j]]["op"] != "base" else "base"
                raise Violation("reload-fresh-instance", f"{feat}:fresh-instance-differs:{kind}",
                                f"circuit node {idx[j]} ({pipe[idx[j]]['op']}): max |diff| "
                                f"{np.nanmax(np.abs(a - b)):.3e}")
        reloads += 1
    classes = opcheck.pipe_classes(case) + opcheck.base_classes(case) + [f"family:{case['family']}"]
    classes += [f"step:{s[0]}" for s in case["steps"]]
    if any(isinstance(v, dict) and v.get("learn") is False for s in case["bases"] for L in s["layers"]
           for v in L.values()):
        classes.append("non-learnable-tensor")
    derived = len(pipe) > len(case["bases"])
    nt = reloads > 0 and (derived or ((case["fold"] or case["optimize"]) and len(tensors_a) >= 2))
    return {"nontrivial": nt, "classes": sorted(set(classes))}
