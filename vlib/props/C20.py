"""C20 — model templates compute the formulas they document."""
from __future__ import annotations

import itertools
import os
import tempfile

import numpy as np
import torch
from hypothesis import strategies as st

from vlib import ref, tie, tol
from vlib.runner import HarnessError, Refused, Violation, sut

ID = "C20"
BUDGET = {"quick": 1280, "thorough": 120000}
RULE = ("Generated: tensor_factorizations.cp / tucker (shape 2..4 modes of size 2..4, rank 1..3, embedding / "
        "categorical / binomial factors, weighted or not) and tensor_train (rank 1..3, real or complex factors); "
        "pgms.hmm (any permutation as ordering, latent states 1..3, categorical / binomial / Gaussian inputs, "
        "per-variable input_layer_kwargs with DIFFERENT arguments per variable) and pgms.fully_factorized likewise; "
        "logic circuits: deterministic decomposable formulas on a drawn vtree (decision nodes whose primes are an "
        "exclusive and exhaustive family, arbitrary subs, TOP / BOTTOM leaves, (p and TOP) also compressed to p, disjunctions nested directly in disjunctions over more variables, 10% untrimmed, 25% of the formulas over >= 3 variables with one variable that occurs only in a branch (lit and (lit and BOTTOM)) removed by unit propagation; the circuit scope must equal the variables of the formula so that the integral is its model count), given as LogicalCircuit "
        "node graphs and as .sdd text through SDD.load; x fold x optimize x semiring x values. Oracle: the documented "
        "formula coded independently with numpy (einsum CP / Tucker contraction, left-to-right TT matrix chain, "
        "forward algorithm along the ordering, product of per-variable pmfs, a recursive truth-table evaluator and "
        "model counter) on ALL index tuples / assignments (<= 4096, else 256 drawn); the input layer over variable v "
        "must carry input_layer_kwargs[v]. Non-trivial = non-identity ordering with non-uniform kwargs (hmm / ff), "
        "rank >= 2 with >= 3 modes (TT / CP / Tucker), >= 3 variables and a TOP/BOTTOM leaf or >= 2 decision levels "
        "(logic); distinct = hash of case.")
ASSUMPTIONS = ["factor tensors are read from the compiled values through the state map by layer scope / graph position; "
               "the contraction itself is coded independently of the circuit",
               "logic: unit weights make a sum an OR only for deterministic disjunctions, which is the class generated; "
               "ValueError from build_circuit on untrimmed formulas is counted as a refusal",
               "float64; |lin(y) - formula| <= 1e-9 * (formula on absolute values)"]


# ----------------------------------------------------------------------------- logic formulas
def _partition(draw, vs, depth=0):
    """An exclusive and exhaustive family of formulas over vs (non-empty list of variables)."""
    if len(vs) == 1:
        v = vs[0]
        if depth > 0 and draw(st.integers(0, 9)) == 0:
            return [["top"]]
        return [["lit", v, True], ["lit", v, False]]
    k = draw(st.integers(1, len(vs) - 1))
    P1 = _partition(draw, vs[:k], depth + 1)
    out = []
    for p in P1:
        for q in _partition(draw, vs[k:], depth + 1):
            out.append(p if q[0] == "top" and draw(st.integers(0, 3)) else ["and", p, q])
    # merge some cells (a deterministic OR of exclusive formulas)
    while len(out) > 2 and draw(st.booleans()):
        i = draw(st.integers(0, len(out) - 2))
        a = out.pop(i)
        b = out.pop(i)
        out.insert(i, ["or", a, b])
    return out


def _formula(draw, vs, depth, trimmed):
    if len(vs) == 1:
        return draw(st.sampled_from([["lit", vs[0], True], ["lit", vs[0], False]]))
    if depth <= 0:
        return ["and"] + [["lit", v, draw(st.booleans())] for v in vs]
    k = max(draw(st.integers(1, len(vs) - 1)), draw(st.integers(1, len(vs) - 1)))  # more primes more often
    L, R = vs[:k], vs[k:]
    primes = _partition(draw, L)
    if trimmed and len(primes) == 1:  # a single TOP prime: the decision node would be trimmed away
        primes = [["lit", L[0], True], ["lit", L[0], False]]
        L, R = L[:1], vs[1:]
    subs = []
    for _ in primes:
        c = draw(st.integers(0, 5))
        if c == 0:
            subs.append(["top"])
        elif c == 1:
            subs.append(["bot"])
        else:
            subs.append(_formula(draw, R, depth - 1, trimmed))
    if trimmed and all(s[0] in ("top", "bot") for s in subs):
        subs[draw(st.integers(0, len(subs) - 1))] = _formula(draw, R, depth - 1, trimmed)
    # a TOP sub is written either as (p and TOP) or, compressed, as p alone
    elems = [p if s[0] == "top" and draw(st.integers(0, 3)) else ["and", p, s] for p, s in zip(primes, subs)]
    # disjunctions nested directly in a disjunction (the inner one usually mentions fewer variables)
    while len(elems) > 2 and draw(st.booleans()):
        i = draw(st.integers(0, len(elems) - 2))
        a = elems.pop(i)
        b = elems.pop(i)
        elems.insert(i, ["or", a, b])
    return ["or"] + elems


def feval(f, x):
    t = f[0]
    if t == "top":
        return True
    if t == "bot":
        return False
    if t == "lit":
        return bool(x[f[1]]) == f[2]
    if t == "and":
        return all(feval(g, x) for g in f[1:])
    return any(feval(g, x) for g in f[1:])


def _obdd_sdd(draw, nv):
    """An OBDD-shaped SDD over variables 1..nv (right-linear vtree) as .sdd lines + the formula."""
    lines, counter = [], [1]  # node 0 is reserved for the root

    def new_id():
        counter[0] += 1
        return counter[0] - 1

    def lit(v, pos):
        i = new_id()
        lines.append(f"L {i} 0 {v + 1 if pos else -(v + 1)}")
        return i, ["lit", v, pos]

    def const(top):
        i = new_id()
        lines.append(f"{'T' if top else 'F'} {i}")
        return i, ["top"] if top else ["bot"]

    def rec(v, root=False):
        if v == nv - 1:
            if root:
                # a decision node is needed at the root: (x, T) (not x, F)
                a, fa = lit(v, True)
                b, fb = lit(v, False)
                s1, f1 = const(True)
                s2, f2 = const(False)
                lines.append(f"D 0 1 2 {a} {s1} {b} {s2}")
                return 0, ["or", ["and", fa, f1], ["and", fb, f2]]
            return lit(v, draw(st.booleans()))
        a, fa = lit(v, True)
        b, fb = lit(v, False)
        subs = []
        for _ in range(2):
            c = draw(st.integers(0, 4))
            subs.append(const(True) if c == 0 else const(False) if c == 1 else rec(v + 1))
        if all(s[1][0] in ("top", "bot") for s in subs):
            subs[draw(st.integers(0, 1))] = rec(v + 1)
        i = 0 if root else new_id()
        lines.append(f"D {i} 1 2 {a} {subs[0][0]} {b} {subs[1][0]}")
        return i, ["or", ["and", fa, subs[0][1]], ["and", fb, subs[1][1]]]

    _, f = rec(0, root=True)
    return [f"sdd {counter[0]}"] + lines, f


@st.composite
def _case(draw, tier):
    big = tier == "thorough"
    kind = draw(st.sampled_from(["cp", "tucker", "tt", "hmm", "hmm", "ff", "logic", "logic", "sdd"]))
    c = {"kind": kind, "fold": draw(st.booleans()), "optimize": draw(st.booleans()),
         "vseed": draw(st.integers(0, 2**20)), "profile": draw(st.sampled_from(["normal", "ints"])),
         "semiring": draw(st.sampled_from(["sum-product", "complex-lse-sum"]))}
    if kind in ("cp", "tucker", "tt"):
        nm = draw(st.integers(2, 4))
        c["shape"] = [draw(st.integers(2, 4)) for _ in range(nm)]
        c["rank"] = draw(st.integers(1, 3 if kind != "tucker" else 2))
        c["input"] = draw(st.sampled_from(["embedding", "embedding", "categorical", "binomial"]))
        c["weighted"] = draw(st.booleans())
        c["complex"] = kind == "tt" and c["semiring"] == "complex-lse-sum" and draw(st.booleans())
    elif kind in ("hmm", "ff"):
        n = draw(st.integers(1, 5 if big else 4))
        c["n"] = n
        c["ordering"] = list(draw(st.permutations(list(range(n)))))
        c["input"] = draw(st.sampled_from(["categorical", "categorical", "binomial", "binomial", "gaussian"]))
        c["latent"] = draw(st.integers(1, 3))
        c["kwmode"] = draw(st.sampled_from(["list", "list", "list", "dict", "none"]))
        c["sizes"] = [draw(st.integers(2, 4)) for _ in range(n)]
        c["semiring"] = draw(st.sampled_from(["sum-product", "lse-sum"]))
    elif kind == "logic":
        nv = draw(st.integers(2, 5 if big else 4))
        c["nv"] = nv
        c["trimmed"] = draw(st.integers(0, 9)) != 0
        vs = list(draw(st.permutations(list(range(nv)))))
        dead = nv >= 3 and draw(st.integers(0, 3)) == 0
        c["formula"] = _formula(draw, vs[:-1] if dead else vs, draw(st.integers(1, 3)), c["trimmed"])
        if dead:
            # a variable that occurs only in a branch that unit propagation removes: (lit and (lit_d and BOTTOM));
            # it still is a variable of the formula, so it must be counted by the model count
            c["formula"] = c["formula"] + [["and", ["lit", vs[0], draw(st.booleans())],
                                            ["and", ["lit", vs[-1], draw(st.booleans())], ["bot"]]]]
        c["dead_var"] = bool(dead)
        c["semiring"] = "sum-product"
    else:
        nv = draw(st.integers(1, 5 if big else 4))
        c["nv"] = nv
        c["lines"], c["formula"] = _obdd_sdd(draw, nv)
        c["trimmed"] = True
        c["semiring"] = "sum-product"
    return c


def strategy(tier):
    return _case(tier)


# ----------------------------------------------------------------------------- helpers
def _compile(sc, c, write_profile=True):
    from cirkit.backend.torch.compiler import TorchCompiler

    comp = TorchCompiler(semiring=c["semiring"], fold=c["fold"], optimize=c["optimize"])
    torch.manual_seed(c["vseed"])
    with sut("compile"):
        cc = comp.compile(sc)
    tensors = tie.sym_tensors(sc)
    if write_profile:
        vals = tie.draw_values(tensors, c["vseed"], c["profile"])
        tie.write_values(comp, vals)
    vals = tie.read_values(comp, tensors)
    return comp, cc, vals


def _all_tuples(shape, seed, cap=4096, n=256):
    total = int(np.prod(shape))
    if total <= cap:
        return np.array(list(itertools.product(*[range(s) for s in shape])), dtype=np.float64).reshape(total, len(shape))
    rng = np.random.default_rng(seed)
    return np.stack([rng.integers(0, s, size=n) for s in shape], axis=1).astype(np.float64)


def _compare(cc, X, expected, M, sem, sig):
    with sut("evaluate"), torch.no_grad():
        y = tol.lin(cc(torch.from_numpy(X)), sem)
    if y.shape != (X.shape[0], 1, 1):
        raise Violation("output-shape", sig + "shape", f"{y.shape}")
    msg = tol.mismatch(y[:, 0, 0], expected, M)
    if msg:
        raise Violation("template-vs-formula", sig + "value", msg)


def _input_table(sl, vals):
    """(K, n_states) table of an input layer over a discrete variable: value of unit k at state x."""
    from cirkit.symbolic import layers as L

    if isinstance(sl, L.EmbeddingLayer):
        n = sl.num_states
    elif isinstance(sl, L.CategoricalLayer):
        n = sl.num_categories
    else:
        n = sl.total_count + 1
    return ref.input_fn(sl, vals, np.arange(n)).T


def _by_scope(sc):
    from cirkit.symbolic.layers import InputLayer

    out = {}
    for sl in sc.layers:
        if isinstance(sl, InputLayer):
            (v,) = tuple(sl.scope)
            out.setdefault(int(v), []).append(sl)
    return out


# ----------------------------------------------------------------------------- per-template bodies
def _run_tensor(c):
    from cirkit.symbolic.layers import SumLayer
    from cirkit.templates import tensor_factorizations as TF
    from cirkit.templates.utils import Parameterization

    kind, shape, R = c["kind"], tuple(c["shape"]), c["rank"]
    plain = Parameterization(activation="none", initialization="normal")
    with sut("template", refuse=(ValueError,)):
        if kind == "cp":
            sc = TF.cp(shape, R, input_layer=c["input"], weight_param=plain if c["weighted"] else None)
        elif kind == "tucker":
            sc = TF.tucker(shape, R, input_layer=c["input"])
        else:
            sc = TF.tensor_train(shape, R, factor_param=Parameterization(
                activation="none", initialization="normal", dtype="complex" if c["complex"] else "real"))
    n = len(shape)
    if kind != "tt" and c["input"] == "binomial":
        shape_states = tuple(s + 1 for s in shape)  # total_count = dim: states 0..dim
    else:
        shape_states = shape
    comp, cc, vals = _compile(sc, c)
    X = _all_tuples(shape_states, c["vseed"])
    xi = X.astype(np.int64)
    ins = _by_scope(sc)
    sig = f"{kind}:{'fold' if c['fold'] else ''}{'opt' if c['optimize'] else ''}:"
    if kind in ("cp", "tucker"):
        A = [_input_table(ins[j][0], vals) for j in range(n)]  # (R, I_j)
        (sum_sl,) = [l for l in sc.layers if isinstance(l, SumLayer)]
        W = ref.param(sum_sl.weight, vals)
        letters = "abcdefgh"[:n]
        if kind == "cp":
            w = W.reshape(R)
            cols = [A[j][:, xi[:, j]] for j in range(n)]  # (R, N)
            expected = np.einsum("r," + ",".join("rn" for _ in range(n)) + "->n", w, *cols)
            M = np.einsum("r," + ",".join("rn" for _ in range(n)) + "->n", np.abs(w), *[np.abs(x) for x in cols])
        else:
            core = W.reshape((R,) * n)
            cols = [A[j][:, xi[:, j]] for j in range(n)]
            spec = letters + "," + ",".join(f"{l}n" for l in letters) + "->n"
            expected = np.einsum(spec, core, *cols)
            M = np.einsum(spec, np.abs(core), *[np.abs(x) for x in cols])
    else:
        # tensor train: factors identified from the circuit graph
        first, last = ins[0][0], ins[n - 1][0]
        if n == 2 and first is last:
            raise HarnessError("tt: first and last embedding coincide")
        V1 = ref.param(first.weight, vals)  # (R, I_0)
        Vn = ref.param(last.weight, vals)
        chain = [l for l in sc.topological_ordering() if isinstance(l, SumLayer)]
        inner = chain[:-1]
        if len(inner) != n - 2:
            raise Violation("tt-structure", sig + "number-of-inner-sums", f"{len(inner)} inner sums for {n} modes")
        v = V1[:, xi[:, 0]].T.astype(np.complex128 if c["complex"] else np.float64)  # (N, R)
        m = np.abs(v)
        for j, s in enumerate(inner, start=1):
            prods = list(sc.layer_inputs(s))
            embs = []
            for p in prods:
                e = [l for l in sc.layer_inputs(p) if l in ins.get(j, [])]
                if len(e) != 1:
                    raise Violation("tt-structure", sig + "inner-product-wiring", f"mode {j}")
                embs.append(ref.param(e[0].weight, vals))  # (R_a, I_j)
            Vj = np.stack(embs, axis=0)  # (b, a, x)
            Fx = Vj[:, :, xi[:, j]]  # (b, a, N)
            v = np.einsum("na,ban->nb", v, Fx)
            m = np.einsum("na,ban->nb", m, np.abs(Fx))
        expected = np.einsum("na,an->n", v, Vn[:, xi[:, n - 1]])
        M = np.einsum("na,an->n", m, np.abs(Vn[:, xi[:, n - 1]]))
    _compare(cc, X, expected, M, c["semiring"], sig)
    classes = [f"kind:{kind}", f"rank:{R}", f"modes:{n}", f"input:{c['input']}"]
    return {"nontrivial": R >= 2 and n >= 3, "classes": classes}


def _run_pgm(c):
    from cirkit.symbolic import layers as L
    from cirkit.templates import pgms

    n, inp, sizes = c["n"], c["input"], c["sizes"]
    key = {"categorical": "num_categories", "binomial": "total_count"}.get(inp)
    if inp == "gaussian" or c["kwmode"] == "none":
        kw = None
        eff = [2] * n  # library defaults: none for categorical -> must be given
    elif c["kwmode"] == "dict":
        kw = {key: sizes[0]}
        eff = [sizes[0]] * n
    else:
        kw = [{key: s} for s in sizes]
        eff = list(sizes)
    if inp in ("categorical", "binomial") and kw is None:
        kw = {key: 2}
        eff = [2] * n
    with sut("template", refuse=(ValueError,)):
        if c["kind"] == "hmm":
            sc = pgms.hmm(c["ordering"], input_layer=inp, num_latent_states=c["latent"], input_layer_kwargs=kw)
        else:
            sc = pgms.fully_factorized(n, input_layer=inp, input_layer_kwargs=kw)
    ins = _by_scope(sc)
    sig = f"{c['kind']}:{'fold' if c['fold'] else ''}{'opt' if c['optimize'] else ''}:"
    # (structural) each variable uses the arguments given for that variable id
    for v in range(n):
        if len(ins.get(v, [])) != 1:
            raise Violation("per-variable-input-layer", sig + "input-layer-count", f"variable {v}: {len(ins.get(v, []))}")
        sl = ins[v][0]
        if inp == "categorical" and sl.num_categories != eff[v]:
            raise Violation("per-variable-input-layer", sig + "kwargs-assigned-to-wrong-variable",
                            f"variable {v} has num_categories={sl.num_categories}, input_layer_kwargs[{v}] says {eff[v]} "
                            f"(ordering {c['ordering']})")
        if inp == "binomial" and sl.total_count != eff[v]:
            raise Violation("per-variable-input-layer", sig + "kwargs-assigned-to-wrong-variable",
                            f"variable {v} has total_count={sl.total_count}, input_layer_kwargs[{v}] says {eff[v]} "
                            f"(ordering {c['ordering']})")
    comp, cc, vals = _compile(sc, c)
    if inp == "gaussian":
        rng = np.random.default_rng(c["vseed"])
        X = np.round(rng.normal(size=(64, n)), 3)
    else:
        states = [eff[v] if inp == "categorical" else eff[v] + 1 for v in range(n)]
        X = _all_tuples(states, c["vseed"])

    def emis(v):
        return ref.input_fn(ins[v][0], vals, X[:, v])  # (N, K)

    if c["kind"] == "ff":
        expected = np.prod(np.stack([emis(v)[:, 0] for v in range(n)], axis=1), axis=1)
        M = np.abs(expected)
    else:
        order = c["ordering"]
        sums = [l for l in sc.topological_ordering() if isinstance(l, L.SumLayer)]
        if len(sums) != n:
            raise Violation("hmm-structure", sig + "number-of-sum-layers", f"{len(sums)} for {n} variables")
        m = emis(order[-1])  # (N, S)
        m = m @ ref.param(sums[0].weight, vals).T
        for k, i in enumerate(reversed(range(n - 1)), start=1):
            m = m * emis(order[i])
            m = m @ ref.param(sums[k].weight, vals).T
        expected = m[:, 0]
        M = np.abs(expected)
    _compare(cc, X, np.real(expected), M, c["semiring"], sig)
    nonuniform = c["kwmode"] == "list" and len(set(sizes)) > 1 and inp != "gaussian"
    nonid = c["ordering"] != sorted(c["ordering"])
    classes = [f"kind:{c['kind']}", f"input:{inp}", f"kwmode:{c['kwmode']}", f"n:{n}"]
    if nonuniform:
        classes.append("non-uniform-kwargs")
    if nonid:
        classes.append("non-identity-ordering")
    return {"nontrivial": nonuniform and (nonid or c["kind"] == "ff"), "classes": classes}


def _to_nodes(f, memo, in_nodes):
    from cirkit.templates import logic as LG

    t = f[0]
    if t == "top":
        return LG.TopNode()
    if t == "bot":
        return LG.BottomNode()
    if t == "lit":
        key = (f[1], f[2])
        if key not in memo:
            memo[key] = LG.LiteralNode(f[1]) if f[2] else LG.NegatedLiteralNode(f[1])
        return memo[key]
    node = LG.ConjunctionNode() if t == "and" else LG.DisjunctionNode()
    in_nodes[node] = [_to_nodes(g, memo, in_nodes) for g in f[1:]]
    return node


def _fvars(g):
    if g[0] == "lit":
        return {g[1]}
    return set().union(*[_fvars(h) for h in g[1:]]) if len(g) > 1 else set()


def _run_logic(c):
    import cirkit.symbolic.functional as SF
    from cirkit.templates import logic as LG

    nv, f = c["nv"], c["formula"]
    truth = {x: feval(f, x) for x in itertools.product([0, 1], repeat=nv)}
    if len(set(truth.values())) == 1:
        return {"nontrivial": False, "classes": ["constant-formula"]}
    sig = f"{c['kind']}:{'fold' if c['fold'] else ''}{'opt' if c['optimize'] else ''}:"
    if c["kind"] == "logic":
        in_nodes = {}
        root = _to_nodes(f, {}, in_nodes)
        nodes = list(set(itertools.chain(*in_nodes.values())).union(in_nodes.keys()))
        with sut("logical-circuit"):
            lc = LG.LogicalCircuit(nodes, in_nodes, [root])
    else:
        fd, path = tempfile.mkstemp(suffix=".sdd", prefix="c20_")
        try:
            with os.fdopen(fd, "w") as fh:
                fh.write("\n".join(c["lines"]) + "\n")
            with sut("sdd-load"):
                lc = LG.SDD.load(path)
        finally:
            os.unlink(path)
    try:
        sc = lc.build_circuit()
    except ValueError as e:
        raise Refused(f"build_circuit: ValueError: {str(e)[:60]}") from e
    except Exception as e:  # pylint: disable=broad-except
        from vlib.runner import _cirkit_frame

        raise Violation("build_circuit-must-not-raise", f"{sig}{type(e).__name__}@{_cirkit_frame(e)}", str(e)[:300]) from e
    comp, cc, vals = _compile(sc, c, write_profile=False)
    scope = sorted(int(v) for v in sc.scope)
    if not set(scope) <= set(range(nv)):
        raise Violation("logic-scope", sig + "scope", f"{scope}")
    X = np.array(list(itertools.product([0, 1], repeat=nv)), dtype=np.float64).reshape(-1, nv)
    D = max(scope) + 1
    with sut("evaluate"), torch.no_grad():
        y = tol.lin(cc(torch.from_numpy(np.ascontiguousarray(X[:, :max(D, 1)]) if D <= nv else X)), c["semiring"])
    got = np.real(y[:, 0, 0])
    exp = np.array([1.0 if truth[tuple(int(a) for a in x)] else 0.0 for x in X])
    bad = np.abs(got - exp) > 1e-9
    if np.any(bad):
        i = int(np.argmax(bad))
        raise Violation("truth-table", sig + "truth-value", f"assignment {X[i].astype(int).tolist()}: circuit {got[i]} "
                        f"formula {exp[i]}")
    # the circuit ranges over the variables of the formula (also those that occur only in pruned branches), so
    # that its integral is the model count of the formula
    fvars = _fvars(f)
    if c["kind"] == "logic" and set(scope) != fvars:
        raise Violation("logic-scope", sig + "scope-differs-from-formula-variables",
                        f"circuit scope {scope}, variables of the formula {sorted(fvars)}")
    proj = {}
    for x, t in truth.items():
        proj.setdefault(tuple(x[v] for v in scope), set()).add(t)
    if any(len(s) > 1 for s in proj.values()):
        raise Violation("logic-scope", sig + "formula-depends-on-dropped-variable", f"scope {scope}")
    count = sum(1 for s in proj.values() if True in s)
    with sut("integrate"):
        isc = SF.integrate(sc)
        icc = comp.compile(isc)
    with sut("evaluate-integral"), torch.no_grad():
        z = float(np.real(tol.lin(icc(), c["semiring"]).reshape(-1)[0]))
    if abs(z - count) > 1e-9 * max(1, count):
        raise Violation("model-count", sig + "integral-vs-model-count", f"integral {z} model count {count} over {scope}")
    from cirkit.backend.torch.queries import IntegrateQuery
    from cirkit.utils.scope import Scope

    with sut("integrate-query"), torch.no_grad():
        zq = IntegrateQuery(cc)(torch.from_numpy(np.zeros((1, D))), integrate_vars=Scope(scope))
    zq = float(np.real(tol.lin(zq, c["semiring"]).reshape(-1)[0]))
    if abs(zq - count) > 1e-9 * max(1, count):
        raise Violation("model-count", sig + "query-vs-model-count", f"query {zq} model count {count}")

    def has_const(g):
        return g[0] in ("top", "bot") or any(has_const(h) for h in g[1:] if isinstance(h, list))

    def levels(g):
        if g[0] in ("top", "bot", "lit"):
            return 0
        return (1 if g[0] == "or" else 0) + max(levels(h) for h in g[1:])

    def fscope(g):
        if g[0] == "lit":
            return {g[1]}
        return set().union(*[fscope(h) for h in g[1:]]) if len(g) > 1 else set()

    def nested_or(g):
        if g[0] in ("top", "bot", "lit"):
            return False
        if g[0] == "or" and any(h[0] == "or" and fscope(h) < fscope(g) for h in g[1:]):
            return True
        return any(nested_or(h) for h in g[1:])

    classes = [f"kind:{c['kind']}", f"nv:{nv}", f"trimmed:{c['trimmed']}", f"scope-size:{len(scope)}"]
    if c.get("dead_var"):
        classes.append("variable-only-in-pruned-branch")
    if nested_or(f):
        classes.append("or-input-of-or-with-smaller-scope")
    if has_const(f):
        classes.append("has-top/bottom-leaf")
    return {"nontrivial": nv >= 3 and (has_const(f) or levels(f) >= 2), "classes": classes}


def run_case(case):
    if case["kind"] in ("cp", "tucker", "tt"):
        r = _run_tensor(case)
    elif case["kind"] in ("hmm", "ff"):
        r = _run_pgm(case)
    else:
        r = _run_logic(case)
    r["classes"] += [f"sem:{case['semiring']}", f"fold:{case['fold']}", f"opt:{case['optimize']}"]
    return r
