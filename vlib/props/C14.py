"""C14 — every parameter operator computes its documented tensor function."""
from __future__ import annotations

import numpy as np
import torch
from hypothesis import strategies as st

from vlib import pspec, ref
from vlib.runner import Violation, sut

ID = "C14"
BUDGET = {"quick": 4800, "thorough": 240000}
RULE = ("Generated: shape-directed random parameter graphs (depth <= 4, rank 1..3, dims 1..4) over every "
        "symbolic parameter node type, with every axis in -rank..rank-1, repeated / unordered indices, "
        "references, constants, real and complex tensors; optionally 2..4 graphs of equal output shape "
        "(same or different structure) folded together with the compiler's own folding routine. Oracle: "
        "numpy definition of each node (vlib/ref.py) composed along the graph: compiled value must have "
        "shape (folds, *declared shape) and equal the reference in every fold slice; rank-2 graphs are also used as "
        "sum-layer weights of a circuit compiled with optimize=True (parameter-level rewrites) and its outputs "
        "compared with W @ input. Non-trivial = a "
        "non-default axis, rank >= 2, a composition of >= 2 operators, or >= 2 folds; distinct = hash of case.")
ASSUMPTIONS = ["tolerance: 1e-9 relative plus 1e3 x the change of the reference under a 1e-13 relative "
               "perturbation of the leaves (conditioning estimate); in the perturbed evaluation every coefficient of a "
               "polynomial product also moves by 1e-13*|a|*|b| (rounding model of the FFT convolution cirkit uses)",
               "folding exercised through cirkit.backend.torch.compiler._fold_parameters (private helper)"]


@st.composite
def _case(draw, tier):
    rank = draw(st.integers(1, 3))
    shape = [draw(st.integers(1, 4)) for _ in range(rank)]
    depth = draw(st.integers(1, 4 if tier == "thorough" else 3))
    cx = draw(st.integers(0, 4)) == 0
    g = pspec.PGen(draw)
    first = g.gen(shape, depth, pos=False, cx=cx)
    graphs = [first]
    nf = draw(st.sampled_from([1, 1, 2, 3, 4]))
    for _ in range(nf - 1):
        if draw(st.booleans()):
            graphs.append(first)  # same structure, fresh tensors
        else:
            graphs.append(g.gen(shape, draw(st.integers(0, depth)), pos=False, cx=cx))
    return {"shape": shape, "graphs": graphs, "vseed": draw(st.integers(0, 2**20)),
            "profile": draw(st.sampled_from(["normal", "normal", "ints"])),
            # rank-2 graphs are additionally used as the weight of a sum layer in a circuit compiled with
            # optimize=True, so that the parameter-level rewrites (log-softmax, einsum, ...) are exercised too
            "as_weight": rank == 2 and draw(st.booleans()), "fold": draw(st.booleans())}


def strategy(tier):
    return _case(tier)


def _perturb(vals, seed):
    rng = np.random.default_rng(seed + 7)
    out = {}
    for t, v in vals.items():
        u = rng.uniform(-1, 1, size=v.shape)
        out[t] = v * (1 + 1e-13 * u) + 1e-15 * u
    return out


def _compare(y, r, rp, where):
    if tuple(y.shape) != tuple(r.shape):
        raise Violation("shape", f"shape:{where}", f"compiled {tuple(y.shape)} vs declared/reference {tuple(r.shape)}")
    if not (np.all(np.isfinite(r)) and np.all(np.isfinite(rp))):
        return "degenerate"
    with np.errstate(all="ignore"):
        tol = 1e-9 * np.abs(r) + 1e3 * np.abs(rp - r) + 1e-12
        err = np.abs(y - r)
    bad = ~(err <= tol)
    if np.any(bad):
        i = tuple(int(j) for j in np.argwhere(bad)[0])
        raise Violation("value", f"value:{where}", f"at {i}: compiled {y[i]!r} reference {r[i]!r}")
    return "ok"


def _leaves(ps, acc):
    if "in" in ps:
        for c in ps["in"]:
            _leaves(c, acc)
    else:
        acc.append(ps)
    return acc


def _mixed_dtypes(graphs):
    kinds = set()
    for g in graphs:
        for l in _leaves(g, []):
            kinds.add(bool(l.get("cx")))
    return len(kinds) > 1


def _as_sum_weight(case, graphs):
    """Each graph (shape (Ko, Ki)) as the weight of a sum layer over an embedding input, compiled with
    optimize=True: the circuit output must be W @ E[:, x] with W the reference value of the graph."""
    from cirkit.backend.torch.compiler import TorchCompiler
    from cirkit.symbolic.circuit import Circuit
    from cirkit.symbolic.initializers import NormalInitializer
    from cirkit.symbolic.layers import EmbeddingLayer, SumLayer
    from cirkit.symbolic.parameters import Parameter, TensorParameter
    from cirkit.utils.scope import Scope

    Ko, Ki = case["shape"]
    cx = _mixed_dtypes(graphs) or any(l.get("cx") for g in graphs for l in _leaves(g, []))
    sem = "complex-lse-sum" if cx else "sum-product"
    comp = TorchCompiler(semiring=sem, fold=case.get("fold", False), optimize=True)
    layers, in_layers, outs, vals, built = [], {}, [], {}, []
    for k, ps in enumerate(graphs):
        P, b = pspec.build(ps)
        built.append((P, b))
        vals.update(pspec.draw_values(b, case["vseed"] + 101 * k, case["profile"]))
        for t in b.base_tensors:
            with sut("compile-parameter"):
                base = comp.compile_parameter(Parameter.from_input(t))
                base.reset_parameters()
        e = TensorParameter(Ki, 2, initializer=NormalInitializer())
        vals[e] = np.random.default_rng(case["vseed"] + k).normal(size=(Ki, 2))
        emb = EmbeddingLayer(Scope([k]), Ki, num_states=2, weight=Parameter.from_input(e))
        sl = SumLayer(Ki, Ko, weight=P)
        layers += [emb, sl]
        in_layers[sl] = [emb]
        outs.append((sl, e, P, k))
    sc = Circuit(layers, in_layers, [o[0] for o in outs])
    with sut("compile-optimized"):
        cc = comp.compile(sc)
    with torch.no_grad():
        for t, v in vals.items():
            node, idx = comp.state.retrieve_compiled_parameter(t)
            node._ptensor.data[idx].copy_(torch.from_numpy(np.ascontiguousarray(v)))
    import itertools

    X = np.array(list(itertools.product([0, 1], repeat=len(graphs))), dtype=np.float64)
    with sut("evaluate-optimized"), torch.no_grad():
        y = cc(torch.from_numpy(X)).numpy()
    if sem != "sum-product":
        with np.errstate(all="ignore"):
            y = np.exp(y)
    pert = _perturb(vals, case["vseed"])
    for j, (sl, e, P, k) in enumerate(outs):
        with np.errstate(all="ignore"):
            W = ref.param(P, vals)
            with ref.fft_noise(case["vseed"]):
                Wp = ref.param(P, pert)
        E = vals[e]
        xi = X[:, k].astype(int)
        r = (W @ E[:, xi]).T
        rp = (Wp @ pert[e][:, xi]).T
        mag = (np.abs(W) @ np.abs(E[:, xi])).T
        if not (np.all(np.isfinite(r)) and np.all(np.isfinite(rp))):
            return "degenerate"
        tolv = 1e-9 * mag + 1e3 * np.abs(rp - r) + 1e-12
        bad = ~(np.abs(y[:, j] - r) <= tolv)
        if np.any(bad):
            i = tuple(int(q) for q in np.argwhere(bad)[0])
            raise Violation("value", "value:as-sum-weight-optimized:" + graphs[k]["op"],
                            f"at {i}: circuit {y[:, j][i]!r} reference {r[i]!r}")
    return "ok"


def run_case(case):
    from cirkit.backend.torch.compiler import TorchCompiler, _fold_parameters

    graphs = case["graphs"]
    built = []
    for ps in graphs:
        with sut("build-parameter", refuse=()):
            built.append(pspec.build(ps))
    ops = set()
    for ps in graphs:
        ops |= pspec.op_names(ps)
    classes = [f"op:{o}" for o in sorted(ops)] + [f"folds:{len(graphs)}", f"rank:{len(case['shape'])}"]
    # declared shapes
    for (P, _), ps in zip(built, graphs):
        if tuple(P.shape) != tuple(case["shape"]):
            raise Violation("declared-shape", "declared-shape:" + ps["op"],
                            f"Parameter.shape={P.shape} requested {case['shape']}")
    comp = TorchCompiler()
    vals = {}
    tps = []
    for k, (P, b) in enumerate(built):
        v = pspec.draw_values(b, case["vseed"] + 101 * k, case["profile"])
        vals.update(v)
        # compile the tensors that are targets of references first (as an operand circuit would)
        from cirkit.symbolic.parameters import Parameter

        for t in b.base_tensors:
            with sut("compile-parameter"):
                base = comp.compile_parameter(Parameter.from_input(t))
                base.reset_parameters()
        with sut("compile-parameter"):
            tps.append(comp.compile_parameter(P))
    refs = []
    pert = _perturb(vals, case["vseed"])
    with np.errstate(all="ignore"):
        for P, _ in built:
            with ref.fft_noise(case["vseed"]):
                rp_ = ref.param(P, pert)
            refs.append((ref.param(P, vals), rp_))
    for (P, _), (r, _rp) in zip(built, refs):
        if tuple(r.shape) != tuple(P.shape):
            raise Violation("declared-shape", "declared-shape-vs-definition",
                            f"Parameter.shape={P.shape} but the definition yields {r.shape}")

    def write_all():
        with torch.no_grad():
            for t, v in vals.items():
                node, idx = comp.state.retrieve_compiled_parameter(t)
                node._ptensor.data[idx].copy_(torch.from_numpy(np.ascontiguousarray(v)))

    degenerate = False
    # ---- unfolded evaluation of each graph
    for k, tp in enumerate(tps):
        with sut("evaluate-parameter"):
            tp.reset_parameters()
    write_all()
    for k, tp in enumerate(tps):
        with sut("evaluate-parameter"):
            with torch.no_grad():
                y = tp().detach().numpy()
        if y.shape[0] != 1:
            raise Violation("shape", "fold-dim-unfolded", f"{y.shape}")
        res = _compare(y[0], refs[k][0], refs[k][1], "unfolded:" + graphs[k]["op"])
        degenerate |= res == "degenerate"
    # ---- folded evaluation
    if len(tps) > 1:
        mixed = _mixed_dtypes(graphs)
        with sut("fold-parameters", sig="folded-mixed-real-complex" if mixed else ""):
            ftp = _fold_parameters(comp, tps)
            ftp.reset_parameters()
        write_all()
        with sut("evaluate-folded-parameter", sig="folded-mixed-real-complex" if mixed else ""):
            with torch.no_grad():
                y = ftp().detach().numpy()
        if y.shape[0] != len(tps):
            raise Violation("shape", "fold-dim-folded", f"{y.shape} for {len(tps)} graphs")
        for k in range(len(tps)):
            res = _compare(y[k], refs[k][0], refs[k][1], "folded")
            degenerate |= res == "degenerate"
        classes.append("folded-nodes:" + str(len(list(ftp.nodes))))
    if case.get("as_weight") and len(case["shape"]) == 2 and not degenerate:
        res = _as_sum_weight(case, graphs)
        classes.append("as-sum-weight:" + res)
    n_ops = max(pspec.count_ops(g) for g in graphs)
    nontrivial = (not degenerate) and (len(case["shape"]) >= 2 or n_ops >= 2 or len(graphs) >= 2
                                       or any(pspec.nondefault_axis(g) for g in graphs))
    if degenerate:
        classes.append("degenerate-reference")
    # open finding F19: complex graphs are generated with complex leaves only (mixed real / complex fold sets
    # are excluded by construction); count how many cases that redirection affected
    excluded = int(any(l.get("cx") for g in graphs for l in _leaves(g, [])) and len(graphs) > 1)
    return {"nontrivial": nontrivial, "classes": classes, "excluded": excluded}
