"""C14 — every parameter operator computes its documented tensor function."""
from __future__ import annotations

import numpy as np
import torch
from hypothesis import strategies as st

from vlib import pspec, ref
from vlib.runner import Violation, sut

ID = "C14"
BUDGET = {"quick": 4800, "thorough": 80000}
RULE = ("Generated: shape-directed random parameter graphs (depth <= 4, rank 1..3, dims 1..4) over every "
        "symbolic parameter node type, with every axis in -rank..rank-1, repeated / unordered indices, "
        "references, constants, real and complex tensors; optionally 2..4 graphs of equal output shape "
        "(same or different structure) folded together with the compiler's own folding routine. Oracle: "
        "numpy definition of each node (vlib/ref.py) composed along the graph: compiled value must have "
        "shape (folds, *declared shape) and equal the reference in every fold slice. Non-trivial = a "
        "non-default axis, rank >= 2, a composition of >= 2 operators, or >= 2 folds; distinct = hash of case.")
ASSUMPTIONS = ["tolerance: 1e-9 relative plus 1e3 x the change of the reference under a 1e-13 relative "
               "perturbation of the leaves (conditioning estimate)",
               "folding exercised through cirkit.backend.torch.compiler._fold_parameters (private helper)"]


@st.composite
def _case(draw, tier):
    rank = draw(st.integers(1, 3))
    shape = [draw(st.integers(1, 4)) for _ in range(rank)]
    depth = draw(st.integers(1, 4 if tier == "thorough" else 3))
    cx = draw(st.integers(0, 4)) == 0
    g = pspec.PGen(draw)
    first = g.gen(shape, depth, pos=False, cx=cx)
    graphs = [first]
    nf = draw(st.sampled_from([1, 1, 2, 3, 4]))
    for _ in range(nf - 1):
        if draw(st.booleans()):
            graphs.append(first)  # same structure, fresh tensors
        else:
            graphs.append(g.gen(shape, draw(st.integers(0, depth)), pos=False, cx=cx))
    return {"shape": shape, "graphs": graphs, "vseed": draw(st.integers(0, 2**20)),
            "profile": draw(st.sampled_from(["normal", "normal", "ints"]))}


def strategy(tier):
    return _case(tier)


def _perturb(vals, seed):
    rng = np.random.default_rng(seed + 7)
    out = {}
    for t, v in vals.items():
        u = rng.uniform(-1, 1, size=v.shape)
        out[t] = v * (1 + 1e-13 * u) + 1e-15 * u
    return out


def _compare(y, r, rp, where):
    if tuple(y.shape) != tuple(r.shape):
        raise Violation("shape", f"shape:{where}", f"compiled {tuple(y.shape)} vs declared/reference {tuple(r.shape)}")
    if not (np.all(np.isfinite(r)) and np.all(np.isfinite(rp))):
        return "degenerate"
    with np.errstate(all="ignore"):
        tol = 1e-9 * np.abs(r) + 1e3 * np.abs(rp - r) + 1e-12
        err = np.abs(y - r)
    bad = ~(err <= tol)
    if np.any(bad):
        i = tuple(int(j) for j in np.argwhere(bad)[0])
        raise Violation("value", f"value:{where}", f"at {i}: compiled {y[i]!r} reference {r[i]!r}")
    return "ok"


def _leaves(ps, acc):
    if "in" in ps:
        for c in ps["in"]:
            _leaves(c, acc)
    else:
        acc.append(ps)
    return acc


def _mixed_dtypes(graphs):
    kinds = set()
    for g in graphs:
        for l in _leaves(g, []):
            kinds.add(bool(l.get("cx")))
    return len(kinds) > 1


def run_case(case):
    from cirkit.backend.torch.compiler import TorchCompiler, _fold_parameters

    graphs = case["graphs"]
    built = []
    for ps in graphs:
        with sut("build-parameter", refuse=()):
            built.append(pspec.build(ps))
    ops = set()
    for ps in graphs:
        ops |= pspec.op_names(ps)
    classes = [f"op:{o}" for o in sorted(ops)] + [f"folds:{len(graphs)}", f"rank:{len(case['shape'])}"]
    # declared shapes
    for (P, _), ps in zip(built, graphs):
        if tuple(P.shape) != tuple(case["shape"]):
            raise Violation("declared-shape", "declared-shape:" + ps["op"],
                            f"Parameter.shape={P.shape} requested {case['shape']}")
    comp = TorchCompiler()
    vals = {}
    tps = []
    for k, (P, b) in enumerate(built):
        v = pspec.draw_values(b, case["vseed"] + 101 * k, case["profile"])
        vals.update(v)
        # compile the tensors that are targets of references first (as an operand circuit would)
        from cirkit.symbolic.parameters import Parameter

        for t in b.base_tensors:
            with sut("compile-parameter"):
                base = comp.compile_parameter(Parameter.from_input(t))
                base.reset_parameters()
        with sut("compile-parameter"):
            tps.append(comp.compile_parameter(P))
    refs = []
    pert = _perturb(vals, case["vseed"])
    with np.errstate(all="ignore"):
        for P, _ in built:
            refs.append((ref.param(P, vals), ref.param(P, pert)))
    for (P, _), (r, _rp) in zip(built, refs):
        if tuple(r.shape) != tuple(P.shape):
            raise Violation("declared-shape", "declared-shape-vs-definition",
                            f"Parameter.shape={P.shape} but the definition yields {r.shape}")

    def write_all():
        with torch.no_grad():
            for t, v in vals.items():
                node, idx = comp.state.retrieve_compiled_parameter(t)
                node._ptensor.data[idx].copy_(torch.from_numpy(np.ascontiguousarray(v)))

    degenerate = False
    # ---- unfolded evaluation of each graph
    for k, tp in enumerate(tps):
        with sut("evaluate-parameter"):
            tp.reset_parameters()
    write_all()
    for k, tp in enumerate(tps):
        with sut("evaluate-parameter"):
            with torch.no_grad():
                y = tp().detach().numpy()
        if y.shape[0] != 1:
            raise Violation("shape", "fold-dim-unfolded", f"{y.shape}")
        res = _compare(y[0], refs[k][0], refs[k][1], "unfolded:" + graphs[k]["op"])
        degenerate |= res == "degenerate"
    # ---- folded evaluation
    if len(tps) > 1:
        mixed = _mixed_dtypes(graphs)
        with sut("fold-parameters", sig="folded-mixed-real-complex" if mixed else ""):
            ftp = _fold_parameters(comp, tps)
            ftp.reset_parameters()
        write_all()
        with sut("evaluate-folded-parameter", sig="folded-mixed-real-complex" if mixed else ""):
            with torch.no_grad():
                y = ftp().detach().numpy()
        if y.shape[0] != len(tps):
            raise Violation("shape", "fold-dim-folded", f"{y.shape} for {len(tps)} graphs")
        for k in range(len(tps)):
            res = _compare(y[k], refs[k][0], refs[k][1], "folded")
            degenerate |= res == "degenerate"
        classes.append("folded-nodes:" + str(len(list(ftp.nodes))))
    n_ops = max(pspec.count_ops(g) for g in graphs)
    nontrivial = (not degenerate) and (len(case["shape"]) >= 2 or n_ops >= 2 or len(graphs) >= 2
                                       or any(pspec.nondefault_axis(g) for g in graphs))
    if degenerate:
        classes.append("degenerate-reference")
    return {"nontrivial": nontrivial, "classes": classes}
