"""C08 — structural-property predicates agree with their definitions."""
from __future__ import annotations

import numpy as np
from hypothesis import strategies as st

from vlib import defs, gen
from vlib.runner import Violation, sut
from vlib.spec import build, renumber, spec_scope

ID = "C08"
BUDGET = {"quick": 3200, "thorough": 240000}
RULE = ("Generated: unconstrained layer DAGs (G-any: sums over different scopes, overlapping products, "
        "constant layers), smooth&decomposable DAGs (G-sd, several partitions per scope) and pairs built "
        "on equal / different vtrees, and twin pairs (two copies of one circuit with several splits of a scope); each with a drawn permutation of every inner layer's input list "
        "and a drawn renumbering of the variables. Oracle: set-based definitions in vlib/defs.py "
        "(iff for smooth/decomposable; soundness for structured-decomposable/compatible) plus invariance "
        "of all answers under input-order permutation, renumbering and operand swap. Non-trivial = the "
        "case contains a negative (non-smooth, non-decomposable or two different splits of one scope) "
        "or a transformation that changes some layer's input order; distinct = canonical hash of the case.")
ASSUMPTIONS = ["scopes of input layers are read from the symbolic layers; everything else is recomputed "
               "independently from the layer graph"]


def _perm_inputs(spec, seed):
    rng = np.random.default_rng(seed)
    out = {"layers": [], "outputs": list(spec["outputs"])}
    changed = False
    for L in spec["layers"]:
        L2 = dict(L)
        if "in" in L2 and len(L2["in"]) > 1:
            p = rng.permutation(len(L2["in"]))
            new = [L2["in"][i] for i in p]
            changed |= new != L2["in"]
            L2["in"] = new
        out["layers"].append(L2)
    return out, changed


@st.composite
def _case(draw, tier):
    big = tier == "thorough"
    mode = draw(st.sampled_from(["any", "any", "sd", "pair-same", "pair-diff", "pair-any", "pair-twin"]))
    mv = 5 if big else 4
    common = dict(input_types=("emb",), max_K=2, gauss_lp=False)
    if mode == "any":
        a = draw(gen.any_circuit(max_vars=mv, max_layers=12 if big else 8)); b = None
    elif mode == "sd":
        a = draw(gen.sd_circuit(max_vars=mv, structured=draw(st.booleans()), **common)); b = None
    elif mode == "pair-twin":  # two separately built copies of one (usually not structured-decomposable) circuit
        a = draw(st.one_of(gen.sd_circuit(max_vars=mv, structured=False, max_parts=3, **common),
                           gen.any_circuit(max_vars=mv, max_layers=8)))
        b = a
    elif mode == "pair-same":
        a, b = draw(gen.sd_pair(max_vars=mv, same_vtree=True, **common))
    elif mode == "pair-diff":
        a, b = draw(gen.sd_pair(max_vars=mv, same_vtree=False, **common))
    else:
        a = draw(gen.any_circuit(max_vars=3, max_layers=6, renumber=False))
        b = draw(gen.any_circuit(max_vars=3, max_layers=6, renumber=False))
    scope = sorted(spec_scope(a) | (spec_scope(b) if b else frozenset()))
    new_ids = draw(st.lists(st.integers(0, 30), min_size=len(scope), max_size=len(scope), unique=True))
    return {"mode": mode, "a": a, "b": b, "perm_seed": draw(st.integers(0, 2**20)),
            "renum": [[o, n] for o, n in zip(scope, new_ids)]}


def strategy(tier):
    return _case(tier)


def _flags(sc):
    with sut("structural-properties"):
        return (bool(sc.is_smooth), bool(sc.is_decomposable), bool(sc.is_structured_decomposable),
                bool(sc.is_omni_compatible))


def _strip(spec):
    return {"layers": spec["layers"], "outputs": spec["outputs"]}


def run_case(case):
    from cirkit.symbolic.circuit import are_compatible

    classes = [f"mode:{case['mode']}"]
    a = _strip(case["a"])
    b = _strip(case["b"]) if case["b"] else None
    mapping = {o: n for o, n in case["renum"]}
    nontrivial = False
    variants = {}
    for name, spec in (("a", a), ("b", b)):
        if spec is None:
            continue
        permuted, changed = _perm_inputs(spec, case["perm_seed"])
        nontrivial |= changed
        variants[name] = {"orig": spec, "perm": permuted, "renum": renumber(spec, mapping),
                          "perm+renum": renumber(permuted, mapping)}
    flags = {}
    circuits = {}
    for name, vs in variants.items():
        for vn, spec in vs.items():
            with sut("build-circuit"):
                sc = build(spec)
            circuits[(name, vn)] = sc
            view = defs.view_from_spec(spec)
            f = _flags(sc)
            flags[(name, vn)] = f
            d_smooth, d_dec = defs.is_smooth(view), defs.is_decomposable(view)
            if f[0] != d_smooth:
                raise Violation("smooth-iff-definition", f"is_smooth={f[0]} definition={d_smooth}", vn)
            if f[1] != d_dec:
                raise Violation("decomposable-iff-definition", f"is_decomposable={f[1]} definition={d_dec}", vn)
            if f[2] and not defs.same_split_everywhere(view):
                raise Violation("sd-soundness", "reported structured-decomposable with two splits of one scope", vn)
            if f[2] and not (d_smooth and d_dec):
                raise Violation("sd-soundness", "reported structured-decomposable but not smooth/decomposable", vn)
            if vn == "orig":
                if not d_smooth:
                    classes.append("neg:non-smooth"); nontrivial = True
                if not d_dec:
                    classes.append("neg:non-decomposable"); nontrivial = True
                if d_smooth and d_dec and not defs.same_split_everywhere(view):
                    classes.append("neg:two-splits"); nontrivial = True
                if f[2]:
                    classes.append("pos:sd")
                if f[3]:
                    classes.append("pos:omni")
        base = flags[(name, "orig")]
        for vn in ("perm", "renum", "perm+renum"):
            if flags[(name, vn)] != base:
                names = ["is_smooth", "is_decomposable", "is_structured_decomposable", "is_omni_compatible"]
                diff = [n for n, x, y in zip(names, base, flags[(name, vn)]) if x != y]
                raise Violation("invariance", f"{'+'.join(diff)} changes under {vn}",
                                f"orig={base} {vn}={flags[(name, vn)]}")
    if b is not None:
        answers = {}
        for vn in ("orig", "perm", "renum", "perm+renum"):
            ca, cb = circuits[("a", vn)], circuits[("b", vn)]
            # fresh objects for the swapped call so cached properties cannot mask anything
            with sut("are_compatible"):
                ab = bool(are_compatible(ca, cb))
                ba = bool(are_compatible(cb, ca))
            answers[vn] = (ab, ba)
            va, vb = defs.view_from_spec(variants["a"][vn]), defs.view_from_spec(variants["b"][vn])
            if ab != ba:
                raise Violation("compatible-symmetric", "are_compatible(a,b) != are_compatible(b,a)",
                                f"{vn}: ab={ab} ba={ba}")
            if ab and not (defs.same_split_everywhere(va, vb) and defs.is_smooth(va) and defs.is_smooth(vb)
                           and defs.is_decomposable(va) and defs.is_decomposable(vb)):
                raise Violation("compatible-soundness", "reported compatible with different splits of one scope", vn)
        if len(set(answers.values())) != 1:
            raise Violation("invariance", "are_compatible changes under perm/renum", str(answers))
        classes.append("compat:" + str(answers["orig"][0]))
        if not answers["orig"][0]:
            nontrivial = True
    return {"nontrivial": nontrivial, "classes": classes}
