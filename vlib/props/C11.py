"""C11 — marginal (integration) queries on compiled circuits equal the true per-sample marginals."""
from __future__ import annotations

import numpy as np
import torch
from hypothesis import strategies as st

from vlib import gen, harness, opcheck, ops, ref, tie, tol
from vlib.runner import Violation, sut
from vlib.spec import build, spec_scope

ID = "C11"
BUDGET = {"quick": 1600, "thorough": 48000}
RULE = ("Generated: smooth&decomposable DAGs whose inputs implement integrate() (categorical probs and logits, "
        "binomial probs/logits, Gaussian with/without log-partition; categorical probabilities given through softmax or as a "
        "plain normalised tensor with entries that are exactly zero, e.g. one-hot rows), constants, Hadamard/Kronecker, n-ary sums, "
        "1..3 outputs, renumbered variables x semiring x fold x optimize x batch class (1, 2, 3, 5, a fold count); "
        "integrate_vars in all accepted forms: bool mask (B,D), mask (D,), one Scope, a list of 1 or B scopes, "
        "incl. empty scopes and a different scope per row; plus variables outside the scope (must raise "
        "ValueError). Oracle: per row, brute-force sum / quadrature of the numpy reference over exactly that "
        "row's variables at that row's values (input-wise exact marginal when the joint grid is too large); when "
        "the mask is constant and a symbolic rule exists, also the compiled symbolic integrate. Non-trivial = "
        "compared and (mask differs between rows, or a logits / unnormalised input, or B equals a fold count); "
        "distinct = hash of case.")
ASSUMPTIONS = ["float64; |lin(y)-r| <= 1e-9*M (1e-8*M with Gaussian variables in the mask)",
               "mask columns of variables outside the scope (gaps of a renumbered scope) are left False"]

INPUTS = ("cat", "catl", "bin", "binl", "gau")


@st.composite
def _case(draw, tier):
    big = tier == "thorough"
    cfg = opcheck.draw_cfg(draw, semirings=("sum-product", "lse-sum", "complex-lse-sum"))
    kw = dict(max_vars=5 if big else 4, max_K=3, input_types=INPUTS, ncat_max=3, with_const=True,
              same_scope_outputs=True,
              # also normalised categorical probabilities with entries that are EXACTLY zero (e.g. one-hot rows)
              cat_kinds=["softmax", "logsoftmax-exp", "simplex0"])
    if cfg["semiring"] == "lse-sum":
        kw.update(nonneg=True)
    spec = draw(gen.sd_circuit(**kw))
    scope = sorted(spec_scope(spec))
    form = draw(st.sampled_from(["mask2d", "mask2d", "mask1d", "scope", "scopes1", "scopesB", "scopesB",
                                 "out-of-scope"]))
    bclass = draw(st.sampled_from([1, 2, 3, 5, "fold", "fold-min"]))
    # per-row subsets are drawn as bit seeds and expanded in run_case once B is known
    return dict(cfg, spec=spec, form=form, bclass=bclass, zseed=draw(st.integers(0, 2**20)),
                bad_var=draw(st.sampled_from([v for v in range(27) if v not in scope])))


def strategy(tier):
    return _case(tier)


def _rows_subsets(scope, B, zseed, same):
    rng = np.random.default_rng(zseed)
    rows = []
    for b in range(1 if same else B):
        bits = rng.integers(0, 2, size=len(scope)).astype(bool)
        if rng.integers(0, 6) == 0:
            bits[:] = False
        if rng.integers(0, 6) == 0:
            bits[:] = True
        rows.append(sorted(int(v) for v, on in zip(scope, bits) if on))
    return rows * (B if same else 1)


def run_case(case):
    from cirkit.backend.torch.compiler import TorchCompiler
    from cirkit.backend.torch.queries import IntegrateQuery
    from cirkit.utils.scope import Scope

    spec = {"layers": case["spec"]["layers"], "outputs": case["spec"]["outputs"]}
    sem = case["semiring"]
    sc = build(spec)
    comp = TorchCompiler(semiring=sem, fold=case["fold"], optimize=case["optimize"])
    with sut("compile"):
        cc = comp.compile(sc)
    tensors = tie.sym_tensors(sc)
    vals = tie.draw_values(tensors, case["vseed"], case["profile"])
    tie.write_values(comp, vals)
    domains = gen.domains_of(case["spec"])
    scope = sorted(spec_scope(spec))
    B = harness.batch_size(case["bclass"], cc, len(scope))
    X = opcheck.draw_X(domains, case["xseed"], B)
    D = max(scope) + 1
    form = case["form"]
    feat = opcheck.feat(case) + (":B1" if B == 1 else "")
    with sut("query-constructor"):
        q = IntegrateQuery(cc)
    xt = torch.from_numpy(X[:, :D].copy())
    if form == "out-of-scope":
        try:
            q(xt, integrate_vars=Scope([case["bad_var"]] + scope[:1]))
        except ValueError:
            return {"nontrivial": True, "classes": ["form:out-of-scope", "raised:ValueError"]}
        except Exception as e:  # pylint: disable=broad-except
            raise Violation("out-of-scope-must-raise-ValueError", f"out-of-scope:{type(e).__name__}", str(e)[:200]) from e
        raise Violation("out-of-scope-must-raise-ValueError", "out-of-scope:returned",
                        f"variable {case['bad_var']} not in scope {scope}")
    same = form in ("mask1d", "scope", "scopes1")
    rows = _rows_subsets(scope, B, case["zseed"], same)
    if form in ("mask2d", "mask1d"):
        m = np.zeros((B, D), dtype=bool)
        for b, Z in enumerate(rows):
            m[b, Z] = True
        iv = torch.from_numpy(m[0] if form == "mask1d" else m)
    elif form == "scope":
        iv = Scope(rows[0])
    elif form == "scopes1":
        iv = [Scope(rows[0])]
    else:
        iv = [Scope(Z) for Z in rows]
    with sut("integrate-query", refuse=(), sig=""):
        y = q(xt, integrate_vars=iv)
    y = tol.lin(y, sem)
    # oracle per distinct subset
    base_specs = [spec]
    expected = None
    Mx = None
    cont = False
    used_inputwise = False
    for Z in sorted({tuple(z) for z in rows}):
        idx = [b for b, z in enumerate(rows) if tuple(z) == Z]
        Xs = X[idx]
        if Z:
            pipe = [{"op": "base", "i": 0}, {"op": "integrate", "a": 0, "Z": list(Z)}]
            orc = ops.PipeOracle(pipe, base_specs, [sc], vals, domains, max_grid=40000)
            cont |= any(domains[v][0] == "c" for v in Z)
            try:
                r, M = orc.value_with_mag(1, Xs)
            except ops.GridTooLarge:
                used_inputwise = True
                with np.errstate(all="ignore"):
                    r = ref.marginal_inputwise(sc, vals, Xs, Z)
                    M = np.abs(ref.marginal_inputwise(sc, vals, Xs, Z, mag=True))
        else:
            r, M = ref.evaluate_with_mag(sc, vals, Xs)
        if expected is None:
            expected = np.zeros((B,) + r.shape[1:], dtype=np.result_type(r.dtype, np.float64))
            Mx = np.zeros((B,) + r.shape[1:])
        if np.iscomplexobj(r) and not np.iscomplexobj(expected):
            expected = expected.astype(np.complex128)
        expected[idx] = r
        Mx[idx] = M
    sig = f"{form}:{feat}:"
    res = harness.check_against_ref(y, expected, Mx, "query-vs-bruteforce-marginal", sigprefix=sig,
                                    rtol=1e-8 if cont else 1e-9)
    classes = harness.structure_classes(spec) + [f"form:{form}", f"sem:{sem}", f"fold:{case['fold']}",
                                                 f"opt:{case['optimize']}", f"B:{case['bclass']}"]
    fold_eq = B in [f for f in tie.fold_counts(cc) if f > 1]
    if fold_eq:
        classes.append("B==fold-count")
    differs = len({tuple(z) for z in rows}) > 1
    if differs:
        classes.append("mask-differs-between-rows")
    if any(not z for z in rows):
        classes.append("has-empty-row-scope")
    if used_inputwise:
        classes.append("oracle:inputwise")
    # agreement with the compiled symbolic integrate (constant mask, rule exists: no binomial inputs)
    types = {L["t"] for L in spec["layers"]}
    if res == "ok" and not differs and rows[0] and not (types & {"bin", "binl"}):
        import cirkit.symbolic.functional as SF

        with sut("symbolic-integrate"):
            isc = SF.integrate(sc, scope=Scope(rows[0]))
            icc = comp.compile(isc)
        rest = [v for v in scope if v not in rows[0]]
        with sut("evaluate-symbolic-integrate"):
            with torch.no_grad():
                yi = icc(torch.from_numpy(X)) if rest else icc()
        yi = tol.lin(yi, sem)
        if not rest:
            yi = np.broadcast_to(yi[None], y.shape)
        msg = tol.mismatch(y, yi, Mx, rtol=1e-8 if cont else 1e-9)
        if msg:
            raise Violation("query-vs-symbolic-integrate", sig + "symbolic", msg)
        classes.append("symbolic-integrate-cross-check")
    if res != "ok":
        classes.append(res)
    special = bool(types & {"catl"}) or any(L.get("lp") for L in spec["layers"])
    return {"nontrivial": res == "ok" and (differs or special or fold_eq), "classes": sorted(set(classes))}
