"""C06 — evidence conditions on observed values; concatenate stacks the operands' outputs."""
from __future__ import annotations

import numpy as np
from hypothesis import strategies as st

from vlib import gen, harness, opcheck, tol
from vlib.runner import Violation, sut

ID = "C06"
BUDGET = {"quick": 1600, "thorough": 64000}
RULE = ("Generated: smooth&decomposable DAGs over every input type (categorical probs/logits, binomial "
        "probs/logits, embedding, Gaussian, polynomial; different types / category counts / degrees per "
        "variable so that folded evidence layers are heterogeneous), 1..3 outputs, renumbered variables; "
        "shapes: evidence(c, obs) with a drawn non-empty observation (partial or complete, in-domain values), "
        "evidence then integrate, evidence of evidence, concatenate of 1..3 circuits (also concatenate of "
        "evidence circuits of different bases, and of 2..3 evidence circuits of ONE base with different - half of "
        "the time complementary - observations, sometimes with the base itself); observed values of continuous "
        "variables are floats or Python ints; x semiring x fold x optimize. Oracle: numpy reference of the operand on inputs "
        "whose observed columns are overwritten; scope(result) == scope - obs; complete observation => empty "
        "scope and (O,K) output; concatenate == operands' reference outputs stacked in the given order and == "
        "each operand compiled alone in the same compiler. Non-trivial = compared and (>= 2 observed variables "
        "on a folded compilation, or partial observation, or >= 2 operands); distinct = hash of case.")
ASSUMPTIONS = ["float64; |lin(y)-r| <= 1e-9*M", "observed values are drawn inside the variable's domain"]

ALL = ("cat", "catl", "bin", "binl", "emb", "gau", "pol")
INTEG = ("cat", "catl", "emb", "gau")


@st.composite
def _case(draw, tier):
    big = tier == "thorough"
    cfg = opcheck.draw_cfg(draw)
    sem = cfg["semiring"]
    shape = draw(st.sampled_from(["evidence", "evidence", "evidence", "evidence-integrate", "evidence-twice",
                                  "concat", "concat-evidence", "concat-evidences-of-one"]))
    types = INTEG if shape == "evidence-integrate" else ALL
    kw = dict(max_vars=5 if big else 4, max_K=3, input_types=types, ncat_max=4)
    if sem == "lse-sum":
        kw.update(nonneg=True, input_types=tuple(t for t in types if t != "pol"))
    elif sem == "complex-lse-sum":
        kw.update(cx=True)
    if shape.startswith("concat"):
        n = 1 if shape == "concat-evidences-of-one" else draw(st.integers(1, 3))
        bases = draw(gen.sd_pair(n=n, same_vtree=False, same_K=True, multi_out=True, **kw))
    else:
        bases = [draw(gen.sd_circuit(same_scope_outputs=(shape == "evidence-integrate"), **kw))]
    pipe = [{"op": "base", "i": i} for i in range(len(bases))]
    dom = gen.domains_of(bases[0])
    scope = sorted(dom)
    if shape == "evidence":
        mn = min(len(scope), draw(st.sampled_from([1, 2, 2, 3])))
        pipe.append({"op": "evidence", "a": 0, "obs": opcheck.draw_obs(draw, dom, scope, min_size=mn)})
    elif shape == "evidence-integrate":
        k = len(scope)
        obs = opcheck.draw_obs(draw, dom, scope, max_size=max(1, k - 1))
        pipe.append({"op": "evidence", "a": 0, "obs": obs})
        rest = [v for v in scope if v not in {o[0] for o in obs}]
        if rest:
            pipe.append({"op": "integrate", "a": 1, "Z": opcheck.draw_subset(draw, rest)})
    elif shape == "evidence-twice":
        obs = opcheck.draw_obs(draw, dom, scope, max_size=max(1, len(scope) - 1))
        pipe.append({"op": "evidence", "a": 0, "obs": obs})
        rest = [v for v in scope if v not in {o[0] for o in obs}]
        if rest:
            pipe.append({"op": "evidence", "a": 1, "obs": opcheck.draw_obs(draw, dom, rest)})
    elif shape == "concat":
        order = list(draw(st.permutations(list(range(len(bases))))))
        if draw(st.integers(0, 2)) == 0:  # the same operand may occur twice
            order.insert(draw(st.integers(0, len(order))), draw(st.sampled_from(order)))
        pipe.append({"op": "concatenate", "as": order})
    elif shape == "concat-evidences-of-one":
        # several evidence circuits of ONE base with different (half of the time complementary) observations,
        # concatenated in a drawn order, sometimes together with the base itself
        k = len(scope)
        obss = []
        if k >= 2 and draw(st.booleans()):
            perm = list(draw(st.permutations(scope)))
            cut = draw(st.integers(1, k - 1))
            for part in (perm[:cut], perm[cut:]):
                obss.append(opcheck.draw_obs(draw, dom, part, min_size=len(part)))
        else:
            for _ in range(draw(st.integers(2, 3))):
                obss.append(opcheck.draw_obs(draw, dom, scope, max_size=max(1, k - 1)))
        for obs in obss:
            pipe.append({"op": "evidence", "a": 0, "obs": obs})
        ids = list(range(1, 1 + len(obss))) + ([0] if draw(st.integers(0, 2)) == 0 else [])
        pipe.append({"op": "concatenate", "as": list(draw(st.permutations(ids)))})
    else:
        nb = len(bases)
        obs = opcheck.draw_obs(draw, dom, scope)
        for i in range(nb):
            pipe.append({"op": "evidence", "a": i, "obs": obs})
        order = draw(st.permutations(list(range(nb, 2 * nb))))
        pipe.append({"op": "concatenate", "as": list(order)})
    return dict(cfg, bases=bases, pipe=pipe, shape=shape)


def strategy(tier):
    return _case(tier)


def run_case(case):
    # multivariate evidence never arises (all inputs univariate); NotImplementedError not expected
    P = opcheck.prepare(case, refuse=())
    last = len(P.pipe) - 1
    X = opcheck.draw_X(P.domains, case["xseed"], case["B"])
    got_scope = frozenset(int(v) for v in P.target.scope)
    if got_scope != P.scopes[last]:
        raise Violation("result-scope", "scope", f"scope {sorted(got_scope)} expected {sorted(P.scopes[last])}")
    cc_scope = frozenset(int(v) for v in P.cc.scope)
    if cc_scope != P.scopes[last]:
        raise Violation("result-scope", "compiled-scope", f"{sorted(cc_scope)} expected {sorted(P.scopes[last])}")
    sig = f"{case['shape']}:{opcheck.feat(case)}:"
    cont = any(n["op"] == "integrate" and any(P.domains[v][0] == "c" for v in n["Z"]) for n in P.pipe)
    res = opcheck.compare_node(P, last, X, "evidence/concatenate-vs-operand", sig=sig, rtol=1e-8 if cont else 1e-9)
    classes = opcheck.pipe_classes(case) + opcheck.base_classes(case) + [f"shape:{case['shape']}", f"B:{case['B']}"]
    n_obs = 0
    partial = False
    for i, n in enumerate(P.pipe):
        if n["op"] == "evidence":
            n_obs = max(n_obs, len(n["obs"]))
            partial |= bool(P.scopes[i])
    if P.pipe[last]["op"] == "concatenate" and res == "ok":
        # each block equals the operand compiled alone in the same compiler
        y, _ = opcheck.eval_node(P, last, X)
        _, M = P.oracle.value_with_mag(last, X)
        off = 0
        for j in P.pipe[last]["as"]:
            with sut("compile-operand"):
                cj = P.comp.compile(P.scs[j])
            yj, _ = opcheck.eval_node(P, j, X, what="evaluate-operand", cc=cj)
            Oj = yj.shape[1]
            msg = tol.mismatch(y[:, off:off + Oj], yj, M[:, off:off + Oj])
            if msg:
                raise Violation("concatenate-vs-operand-alone", sig + "alone", f"operand node {j}: {msg}")
            off += Oj
        if off != y.shape[1]:
            raise Violation("concatenate-num-outputs", sig + "num-outputs", f"{y.shape[1]} != {off}")
    if n_obs:
        classes.append(f"n-observed:{min(n_obs, 4)}")
    if n_obs and not partial:
        classes.append("complete-observation")
    if res != "ok":
        classes.append(res)
    n_ops = len(P.pipe[last].get("as", []))
    nt = res == "ok" and ((n_obs >= 2 and case["fold"]) or (n_obs and partial) or n_ops >= 2)
    return {"nontrivial": nt, "classes": sorted(set(classes))}
