"""C18 — compiler registry and pipeline context stay coherent over any call history (model-based)."""
from __future__ import annotations

from hypothesis import strategies as st

from vlib.runner import HarnessError, Violation, sut
from vlib.spec import build, pk

ID = "C18"
BUDGET = {"quick": 1280, "thorough": 120000}
RULE = ("Generated histories (lists of 4..16 steps in quick, ..40 in thorough; every index is taken modulo the size of "
        "the pool it refers to, so every list is a valid history and shrinks as one value) over the operations: create "
        "a context (drawn flags), enter a context that is not active, exit the innermost context normally or with an "
        "exception passed to __exit__, create a tiny symbolic circuit (embedding / categorical / polynomial inputs, 2 "
        "variables), compile it through ctx.compile or cirkit.pipeline.compile (explicit ctx= or the active context), "
        "compile it again, build derived SYMBOLIC circuits from compiled and uncompiled ones and compile them later, apply integrate / multiply / differentiate / conjugate / concatenate to compiled circuits "
        "through the module-level functions or the context methods, pass a circuit compiled in another context, query "
        "every lookup method. A model (stack of active contexts + per-context identity map symbolic <-> compiled) is "
        "updated alongside. Invariants after EVERY step: the active pipeline context and operator registry are the "
        "model's stack top (or the module defaults); compile of a known circuit returns the same object; is_compiled / "
        "has_symbolic / get_* / ctx[sc] agree with the model in both directions and answer False / raise for foreign "
        "objects; after compiling a derived circuit all its transitive operands are compiled in that context and "
        "earlier objects are unchanged; an operator function returns the compilation of a symbolic circuit whose "
        "operation names that operator and whose operands are the symbolic circuits of the arguments; foreign compiled "
        "circuits raise ValueError; exceptions passed to __exit__ are not swallowed. Non-trivial = the history has a "
        "nested enter/exit, an exceptional exit, a repeated compile or an operator on compiled circuits; distinct = "
        "hash of the history.")
ASSUMPTIONS = ["re-entering a context object that is already active is never generated (not claimed by the property)",
               "the module-level context variables are restored at the end of every case (all contexts exited)"]

SPECS = {
    "emb": {"layers": [{"t": "emb", "v": 0, "K": 2, "n": 2, "p": pk("plain")}, {"t": "emb", "v": 1, "K": 2, "n": 2, "p": pk("plain")},
                       {"t": "had", "in": [0, 1]}, {"t": "sum", "in": [2], "K": 1, "p": pk("plain")}], "outputs": [3]},
    "cat": {"layers": [{"t": "cat", "v": 0, "K": 2, "n": 2, "p": pk("softmax")}, {"t": "cat", "v": 1, "K": 2, "n": 3, "p": pk("softmax")},
                       {"t": "kro", "in": [0, 1]}, {"t": "sum", "in": [2], "K": 2, "p": pk("softmax")}], "outputs": [3]},
    "pol": {"layers": [{"t": "pol", "v": 0, "K": 1, "n": 2, "p": pk("plain")}, {"t": "pol", "v": 1, "K": 1, "n": 1, "p": pk("plain")},
                       {"t": "had", "in": [0, 1]}, {"t": "sum", "in": [2], "K": 1, "p": pk("plain")}], "outputs": [3]},
}
FLAGS = [dict(semiring="sum-product", fold=False, optimize=False), dict(semiring="lse-sum", fold=True, optimize=True),
         dict(semiring="complex-lse-sum", fold=True, optimize=False), dict(semiring="sum-product", fold=False, optimize=True)]

_HOW = st.sampled_from(["ctx", "module-explicit", "module-active"])
_OHOW = st.sampled_from(["method", "module-explicit", "module-active"])
S_NEW_CTX = st.tuples(st.just("new_ctx"), st.integers(0, 3))
S_ENTER = st.tuples(st.just("enter"), st.integers(0, 7))
S_EXIT = st.tuples(st.just("exit"))
S_EXIT_EXC = st.tuples(st.just("exit_exc"))
S_NEW_CIRCUIT = st.tuples(st.just("new_circuit"), st.sampled_from(sorted(SPECS)))
S_COMPILE = st.tuples(st.just("compile"), st.integers(0, 7), st.integers(0, 15), _HOW)
S_OPERATOR = st.tuples(st.just("operator"), st.sampled_from(["integrate", "integrate-all", "multiply", "multiply",
                                                             "differentiate", "conjugate", "concatenate"]),
                       st.integers(0, 7), st.integers(0, 15), st.integers(0, 15), _OHOW)
S_FOREIGN = st.tuples(st.just("foreign"), st.integers(0, 7), st.integers(0, 15),
                      st.sampled_from(["integrate", "multiply", "conjugate", "concatenate", "differentiate"]))
# a derived SYMBOLIC circuit built from circuits of the pool (compiled or not) without compiling it: a later
# compile step then has to compile its not-yet-compiled operands first and keep the already compiled ones
S_SYMOP = st.tuples(st.just("symop"), st.sampled_from(["multiply", "multiply", "integrate", "conjugate", "concatenate"]),
                    st.integers(0, 15), st.integers(0, 15))
# compile, in one step, a derived circuit one of whose operands is already compiled and the other is not
S_PARTLY = st.tuples(st.just("partly"), st.sampled_from(["multiply", "concatenate"]), st.integers(0, 7), st.integers(0, 15),
                     st.booleans(), _HOW)
MAX_PRODUCT_LAYERS = 1200  # bound on |layers(a)| * |layers(b)| of an operator step (memory)
MAX_PRODUCT_UNITS = 1024  # bound on max units(a) * max units(b): the product of Kronecker layers carries a dense
#                           (K x K) permutation matrix, K = units(a) * units(b) (a 65536-unit layer asked for 16 GiB)

STEP = st.one_of(S_PARTLY, S_PARTLY, S_SYMOP, S_SYMOP, S_NEW_CTX, S_ENTER, S_ENTER, S_ENTER, S_EXIT, S_EXIT, S_EXIT_EXC, S_NEW_CIRCUIT, S_COMPILE, S_COMPILE,
                 S_COMPILE, S_COMPILE, S_OPERATOR, S_OPERATOR, S_OPERATOR, S_OPERATOR, S_FOREIGN)


def strategy(tier):
    n = 40 if tier == "thorough" else 16

    @st.composite
    def _s(draw):
        # a short prologue makes the pools non-empty; everything after it is free
        pro = [draw(S_NEW_CTX) for _ in range(draw(st.integers(1, 3)))]
        first = draw(S_NEW_CIRCUIT)
        pro += [first] + [draw(st.one_of(st.just(first), S_NEW_CIRCUIT)) for _ in range(draw(st.integers(1, 3)))]
        pro += [draw(S_COMPILE) for _ in range(draw(st.integers(0, 2)))]
        body = draw(st.lists(STEP, min_size=4, max_size=n))
        return {"steps": [list(x) for x in pro + body]}

    return _s()


class Model:
    def __init__(self):
        self.ctxs = []      # real PipelineContext objects
        self.maps = []      # per ctx: {id(sym): (sym, cc)}
        self.stack = []     # indices of active contexts (innermost last)
        self.circuits = []  # symbolic circuits known to the harness (base and derived)
        self.kinds = {}     # id(base circuit) -> name of its spec (products need operands of one kind)


def run_case(case):
    import cirkit.pipeline as PL
    from cirkit.symbolic.circuit import CircuitOperator
    from cirkit.symbolic.registry import OPERATOR_REGISTRY
    from cirkit.utils.scope import Scope

    M = Model()
    default_ctx = PL._PIPELINE_CONTEXT.get()
    default_reg = OPERATOR_REGISTRY.get()
    if not isinstance(default_ctx, PL.PipelineContext):
        raise HarnessError("unexpected default pipeline context")
    feats = set()

    def check_active(where):
        want_ctx = M.ctxs[M.stack[-1]] if M.stack else default_ctx
        want_reg = want_ctx._op_registry if M.stack else default_reg
        if PL._PIPELINE_CONTEXT.get() is not want_ctx:
            raise Violation("active-context", f"{where}:wrong-active-context", f"stack depth {len(M.stack)}")
        if OPERATOR_REGISTRY.get() is not want_reg:
            raise Violation("active-context", f"{where}:wrong-active-operator-registry", f"stack depth {len(M.stack)}")

    def check_maps(where):
        all_ccs = [(k, cc) for k, m in enumerate(M.maps) for (_, cc) in m.values()]
        for k, ctx in enumerate(M.ctxs):
            m = M.maps[k]
            for sym, cc in m.values():
                if not ctx.is_compiled(sym) or ctx.get_compiled_circuit(sym) is not cc or ctx[sym] is not cc:
                    raise Violation("registry-bijection", f"{where}:symbolic-to-compiled", "")
                if not ctx.has_symbolic(cc) or ctx.get_symbolic_circuit(cc) is not sym:
                    raise Violation("registry-bijection", f"{where}:compiled-to-symbolic", "")
            for sym in M.circuits:
                if id(sym) not in m and ctx.is_compiled(sym):
                    raise Violation("registry-bijection", f"{where}:unknown-circuit-reported-compiled", "")
            for k2, cc in all_ccs:
                if k2 != k and ctx.has_symbolic(cc):
                    raise Violation("registry-bijection", f"{where}:foreign-compiled-circuit-reported-known", "")

    def absorb_operands(k, sym, where):
        """After compiling sym in ctx k: all transitive operands are compiled; record them."""
        ctx, m = M.ctxs[k], M.maps[k]
        stack = [sym]
        while stack:
            s = stack.pop()
            op = s.operation
            if op is None:
                continue
            for o in op.operands:
                if not ctx.is_compiled(o):
                    raise Violation("operands-compiled-first", f"{where}:operand-not-compiled", "")
                cc = ctx.get_compiled_circuit(o)
                if id(o) in m:
                    if m[id(o)][1] is not cc:
                        raise Violation("compiled-once", f"{where}:operand-recompiled", "")
                else:
                    m[id(o)] = (o, cc)
                    if all(o is not c for c in M.circuits):
                        M.circuits.append(o)
                stack.append(o)

    def pick_ctx(i, how):
        """-> (ctx index, call-through-module?, explicit ctx argument or None)"""
        if how == "module-active":
            if not M.stack:
                return None
            return M.stack[-1]
        if not M.ctxs:
            return None
        return i % len(M.ctxs)

    try:
        for si, step in enumerate(case["steps"]):
            kind = step[0]
            where = kind
            if kind == "new_ctx":
                if len(M.ctxs) < 3:
                    with sut("new-context"):
                        M.ctxs.append(PL.PipelineContext(backend="torch", **FLAGS[step[1]]))
                    M.maps.append({})
            elif kind == "enter":
                if M.ctxs:
                    k = step[1] % len(M.ctxs)
                    if k not in M.stack:
                        with sut("enter"):
                            r = M.ctxs[k].__enter__()
                        if r is not M.ctxs[k]:
                            raise Violation("enter-returns-self", "enter:return-value", "")
                        if M.stack:
                            feats.add("nested")
                        M.stack.append(k)
            elif kind in ("exit", "exit_exc"):
                if M.stack:
                    k = M.stack.pop()
                    with sut("exit"):
                        if kind == "exit":
                            r = M.ctxs[k].__exit__(None, None, None)
                        else:
                            e = RuntimeError("boom")
                            r = M.ctxs[k].__exit__(RuntimeError, e, None)
                            feats.add("exceptional-exit")
                    if r:
                        raise Violation("exit-does-not-swallow", f"{kind}:returns-true", "")
            elif kind == "new_circuit":
                if len(M.circuits) < 8:
                    M.circuits.append(build(SPECS[step[1]]))
                    M.kinds[id(M.circuits[-1])] = step[1]
            elif kind == "partly":
                _, op, ci, a, new_first, how = step
                k = pick_ctx(ci, how)
                if k is not None:
                    import cirkit.symbolic.functional as SF

                    compiled_bases = [sym for sym, _ in M.maps[k].values() if id(sym) in M.kinds]
                    if compiled_bases and len(M.circuits) < 14:
                        sa = compiled_bases[a % len(compiled_bases)]
                        fresh = build(SPECS[M.kinds[id(sa)]])  # same structure, never compiled anywhere
                        M.kinds[id(fresh)] = M.kinds[id(sa)]
                        pair = (fresh, sa) if new_first else (sa, fresh)
                        try:
                            new = SF.multiply(*pair) if op == "multiply" else SF.concatenate(list(pair))
                        except MemoryError:
                            raise
                        except Exception:  # pylint: disable=broad-except
                            new = None
                        if new is not None:
                            M.circuits += [fresh, new]
                            ctx = M.ctxs[k]
                            try:
                                cc = ctx.compile(new) if how == "ctx" else (PL.compile(new, ctx=ctx) if how == "module-explicit"
                                                                            else PL.compile(new))
                            except MemoryError:
                                raise
                            except Exception as e:  # pylint: disable=broad-except
                                from vlib.runner import _cirkit_frame

                                raise Violation("compile-must-not-raise",
                                                f"compile-partly[{op}]:{type(e).__name__}@{_cirkit_frame(e)}",
                                                f"{type(e).__name__}: {str(e)[:200]}") from e
                            M.maps[k][id(new)] = (new, cc)
                            absorb_operands(k, new, f"compile-partly[{op}]")
                            feats.add("compile-derived-with-partly-compiled-operands")
            elif kind == "symop":
                _, op, a, b = step
                if M.circuits and len(M.circuits) < 14:
                    import cirkit.symbolic.functional as SF

                    sa, sb = M.circuits[a % len(M.circuits)], M.circuits[b % len(M.circuits)]
                    if op == "multiply":  # operands of one kind (same structure), preferably two different objects
                        bases = [c for c in M.circuits if id(c) in M.kinds]
                        if bases:
                            sa = bases[a % len(bases)]
                            same = [c for c in bases if M.kinds[id(c)] == M.kinds[id(sa)]]
                            sb = same[b % len(same)]
                    try:
                        if op == "multiply":
                            new = SF.multiply(sa, sb)
                        elif op == "integrate":
                            new = SF.integrate(sa)
                        elif op == "conjugate":
                            new = SF.conjugate(sa)
                        else:
                            new = SF.concatenate([sa, sb])
                    except MemoryError:
                        raise
                    except Exception:  # pylint: disable=broad-except
                        new = None  # refusals of the symbolic operators are not C18's business
                    if new is not None:
                        M.circuits.append(new)
                        feats.add("symbolic-derived")
            elif kind == "compile":
                _, ci, sj, how = step
                k = pick_ctx(ci, how)
                if k is not None and M.circuits:
                    sym = M.circuits[sj % len(M.circuits)]
                    ctx = M.ctxs[k]
                    try:
                        if how == "ctx":
                            cc = ctx.compile(sym)
                        elif how == "module-explicit":
                            cc = PL.compile(sym, ctx=ctx)
                        else:
                            cc = PL.compile(sym)
                    except MemoryError:
                        raise
                    except Exception as e:  # pylint: disable=broad-except
                        from vlib.runner import _cirkit_frame

                        raise Violation("compile-must-not-raise", f"compile[{how}]:{type(e).__name__}@{_cirkit_frame(e)}",
                                        f"{type(e).__name__}: {str(e)[:200]} (derived={sym.operation is not None})") from e
                    known = M.maps[k].get(id(sym))
                    if sym.operation is not None and known is None:
                        ops_ = list(sym.operation.operands)
                        if any(id(o) in M.maps[k] for o in ops_) and any(id(o) not in M.maps[k] for o in ops_):
                            feats.add("compile-derived-with-partly-compiled-operands")
                    if known is not None:
                        feats.add("repeated-compile")
                        if known[1] is not cc:
                            raise Violation("compile-memoised", f"compile[{how}]:different-object-on-recompile", "")
                    M.maps[k][id(sym)] = (sym, cc)
                    absorb_operands(k, sym, f"compile[{how}]")
            elif kind == "operator":
                _, op, ci, a, b, how = step
                k = pick_ctx(ci, how)
                if k is not None and M.maps[k]:
                    ctx = M.ctxs[k]
                    entries = list(M.maps[k].values())
                    sa, ca = entries[a % len(entries)]
                    sb, cb = entries[b % len(entries)]
                    kw = {} if how != "module-explicit" else {"ctx": ctx}
                    tgt = ctx if how == "method" else PL
                    expected_ops = None
                    units = lambda c: max(l.num_output_units for l in c.layers)  # noqa: E731
                    if ((op in ("multiply", "differentiate")
                         and len(list(sa.layers)) * (len(list(sb.layers)) if op == "multiply" else 4) > MAX_PRODUCT_LAYERS)
                            or (op == "multiply" and units(sa) * units(sb) > MAX_PRODUCT_UNITS)):
                        # iterated products of products grow multiplicatively in layers and units (a thorough-tier worker
                        # reached 59 GB):
                        # the history goes on without this step
                        feats.add("operator-skipped(result-too-large)")
                        continue
                    try:
                        if op in ("integrate", "integrate-all"):
                            sc_vars = sorted(sa.scope)
                            scope = None if (op == "integrate-all" or not sc_vars) else Scope(sc_vars[:1])
                            res = tgt.integrate(ca, scope=scope, **kw)
                            expected = (CircuitOperator.INTEGRATION, (sa,))
                        elif op == "multiply":
                            res = tgt.multiply(ca, cb, **kw)
                            expected = (CircuitOperator.MULTIPLICATION, (sa, sb))
                        elif op == "differentiate":
                            res = tgt.differentiate(ca, order=1, **kw)
                            expected = (CircuitOperator.DIFFERENTIATION, (sa,))
                        elif op == "conjugate":
                            res = tgt.conjugate(ca, **kw)
                            expected = (CircuitOperator.CONJUGATION, (sa,))
                        else:
                            res = tgt.concatenate(ca, cb, **kw)
                            expected = (CircuitOperator.CONCATENATE, (sa, sb))
                    except MemoryError:
                        raise
                    except Exception as e:  # pylint: disable=broad-except
                        # documented refusals of the symbolic operators (no rule, incompatible, empty scope...)
                        from vlib.ops import refusal_types

                        if isinstance(e, refusal_types() + (AssertionError,)) or op == "multiply":
                            res = None
                        else:
                            from vlib.runner import _cirkit_frame

                            raise Violation("operator-must-not-raise", f"{op}[{how}]:{type(e).__name__}@{_cirkit_frame(e)}",
                                            str(e)[:300]) from e
                    if res is not None:
                        feats.add("operator")
                        if not ctx.has_symbolic(res):
                            raise Violation("operator-result-registered", f"{op}[{how}]:result-not-in-context", "")
                        rs = ctx.get_symbolic_circuit(res)
                        if rs.operation is None or rs.operation.operator != expected[0]:
                            raise Violation("operator-result-operation", f"{op}[{how}]:wrong-operator",
                                            f"{getattr(rs.operation, 'operator', None)} expected {expected[0]}")
                        ops_ = tuple(rs.operation.operands)
                        if len(ops_) != len(expected[1]) or any(x is not y for x, y in zip(ops_, expected[1])):
                            raise Violation("operator-result-operation", f"{op}[{how}]:wrong-operands", "")
                        M.maps[k][id(rs)] = (rs, res)
                        if all(rs is not c for c in M.circuits) and len(M.circuits) < 14:
                            M.circuits.append(rs)
                        absorb_operands(k, rs, f"{op}[{how}]")
            elif kind == "foreign":
                _, ci, a, op = step
                if len(M.ctxs) >= 2:
                    k = ci % len(M.ctxs)
                    others = [cc for k2, m in enumerate(M.maps) if k2 != k for (_, cc) in m.values()]
                    if others:
                        cc = others[a % len(others)]
                        ctx = M.ctxs[k]
                        try:
                            if op == "integrate":
                                ctx.integrate(cc)
                            elif op == "multiply":
                                ctx.multiply(cc, cc)
                            elif op == "conjugate":
                                ctx.conjugate(cc)
                            elif op == "differentiate":
                                ctx.differentiate(cc)
                            else:
                                ctx.concatenate(cc)
                            raised = None
                        except ValueError as e:
                            raised = e
                        except MemoryError:
                            raise
                        except Exception as e:  # pylint: disable=broad-except
                            raise Violation("foreign-circuit-rejected", f"foreign[{op}]:{type(e).__name__}", str(e)[:200]) from e
                        if raised is None:
                            raise Violation("foreign-circuit-rejected", f"foreign[{op}]:accepted", "")
                        feats.add("foreign")
            check_active(where)
            check_maps(where)
    finally:
        while M.stack:
            k = M.stack.pop()
            try:
                M.ctxs[k].__exit__(None, None, None)
            except Exception:  # pylint: disable=broad-except
                pass
        if PL._PIPELINE_CONTEXT.get() is not default_ctx or OPERATOR_REGISTRY.get() is not default_reg:
            # restore the module defaults for the next case, then report
            PL._PIPELINE_CONTEXT.set(default_ctx)
            OPERATOR_REGISTRY.set(default_reg)
            raise Violation("active-context", "unwind:defaults-not-restored", "")
    classes = sorted(feats) + [f"contexts:{len(M.ctxs)}", f"circuits:{min(len(M.circuits), 8)}"]
    return {"nontrivial": bool(feats & {"nested", "exceptional-exit", "repeated-compile", "operator",
                                         "compile-derived-with-partly-compiled-operands"}), "classes": classes}
