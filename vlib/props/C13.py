"""C13 — autograd gradients of compiled circuits are correct and flag-independent."""
from __future__ import annotations

import numpy as np
import torch
from hypothesis import strategies as st

from vlib import gen, harness, ref, tie
from vlib.runner import Violation, sut
from vlib.spec import build, spec_scope

ID = "C13"
BUDGET = {"quick": 640, "thorough": 36000}
RULE = ("Generated: smooth&decomposable DAGs (<= 4 variables, every input type, Hadamard/Kronecker, n-ary sums, "
        "shared sub-circuits, multi-output) with real or complex parameters x semiring x value profile x batch; a "
        "drawn real functional L = sum_{b,o,k} w*Re(lin y) + u*Im(lin y) (linear space) or sum w*Re(y) (raw log "
        "output, only where the reference is non-zero). Each case is compiled under the four (fold, optimize) "
        "settings with identical parameter values; L.backward() gradients are pulled back to symbolic tensors "
        "through the compiler state map (grad[idx]). Oracle: (i) directional derivatives <grad, d> along one random "
        "direction per tensor and along the continuous input columns vs central finite differences of the SAME "
        "functional of the numpy reference (two step sizes; tolerance from their difference); (ii) the four "
        "settings give the same gradients tensor by tensor; (iii) gradients are finite where the reference value is "
        "non-zero; (iv) for real non-negative cases the log-space semirings give the same gradients of the linear "
        "functional as the sum-product compilation (value profile 'tiny': positive values below machine epsilon). "
        "[iii continued:] "
        "non-zero. Non-trivial = compared and (a tensor folded with others, or a log-space semiring, or a rewritten "
        "layer); distinct = hash of case.")
ASSUMPTIONS = ["finite differences with steps h and h/2 (h = 1e-4): |<grad,d> - FD| <= 8*|FD_h - FD_h/2| + 1e-6*|FD| + "
               "1e-9*S/h, S = sum |w|*M the magnitude bound of the functional",
               "flag independence: |g - g_plain| <= 1e-6 * max|g_plain| (global) + 1e-12*S",
               "complex parameters: torch convention grad = dL/dRe + i dL/dIm for real L"]


@st.composite
def _case(draw, tier):
    big = tier == "thorough"
    sem = draw(st.sampled_from(tie.SEMIRINGS))
    kw = dict(max_vars=4 if big else 3, max_K=2 if not big else 3, with_const=True, kron_max_out=8,
              # categorical probabilities also as a plain normalised tensor with EXACT zeros (one-hot rows)
              cat_kinds=["softmax", "logsoftmax-exp", "simplex0"])
    if sem == "lse-sum":
        spec = draw(gen.sd_circuit(input_types=gen.NONNEG_INPUTS, nonneg=True,
                                   emb_kinds=gen.NONNEG_KINDS + ["plain0", "plain0"], **kw))
    elif sem == "sum-product":
        spec = draw(gen.sd_circuit(input_types=gen.ALL_INPUTS, **kw))
    else:
        spec = draw(gen.sd_circuit(input_types=gen.ALL_INPUTS, cx=draw(st.booleans()), **kw))
    spec = gen.unlearn(draw, spec, p=8)  # some frozen tensors (folded together with learnable ones of equal shape)
    return {"spec": spec, "semiring": sem, "vseed": draw(st.integers(0, 2**20)),
            "profile": draw(st.sampled_from(["normal", "normal", "ints", "tiny"] + (["tiny"] if sem == "lse-sum" else [])
                                            + (["zeros"] if sem != "sum-product" else []))),
            "xseed": draw(st.integers(0, 2**20)),
            "B": draw(st.sampled_from([1, 2, 3])), "wseed": draw(st.integers(0, 2**20)),
            "functional": draw(st.sampled_from(["lin", "lin", "log"]))}


def strategy(tier):
    return _case(tier)


def _functional_torch(y, sem, kind, w, u):
    wt, ut = torch.from_numpy(w), torch.from_numpy(u)
    if sem == "sum-product":
        return (wt * y).sum()
    if kind == "log":
        return (wt * (y.real if y.is_complex() else y)).sum()
    e = torch.exp(y)
    if e.is_complex():
        return (wt * e.real).sum() + (ut * e.imag).sum()
    return (wt * e).sum()


def _functional_ref(r, sem, kind, w, u):
    if sem != "sum-product" and kind == "log":
        with np.errstate(all="ignore"):
            return float(np.sum(w * np.log(np.abs(r))))
    return float(np.sum(w * np.real(r)) + np.sum(u * np.imag(r)))


def run_case(case):
    from cirkit.backend.torch.compiler import TorchCompiler

    spec, sem = case["spec"], case["semiring"]
    sc = build(spec)
    tensors = tie.sym_tensors(sc)
    vals = tie.draw_values(tensors, case["vseed"], case["profile"])
    if "values" in case:  # hand-written regression cases carry explicit values (tensor order of sym_tensors)
        vals = {t: np.asarray(v, dtype=np.float64).reshape(t.shape) for t, v in zip(tensors, case["values"])}
    for t in list(vals):  # keep away from the kinks of clamp (finite differences straddle them)
        v = vals[t]
        if (not np.iscomplexobj(v) and "clamp" in str((getattr(t, "_vspec", None) or {}).get("k", "clamp"))
                and case["profile"] != "tiny"):
            vals[t] = np.where(np.abs(v) < 0.02, 0.05, v)
    dom = gen.domains_of(spec)
    X = gen.draw_inputs_rng(spec, case["xseed"], case["B"])
    cont_cols = sorted(v for v in spec_scope(spec) if dom.get(v, ("c",))[0] == "c")
    with np.errstate(all="ignore"):
        r, M = ref.evaluate_with_mag(sc, vals, X)
    if not (np.all(np.isfinite(r)) and np.all(np.isfinite(M))):
        return {"nontrivial": False, "classes": ["degenerate-reference"]}
    # exactly-zero hidden units: in a log-space semiring their logarithm is -inf and the (safe) logarithm
    # returns zero gradients through them by design, so derivative values are only compared away from them
    hidden_zero = zero_input = False
    from cirkit.symbolic.layers import CategoricalLayer, InputLayer

    lo, lm = {}, {}
    with np.errstate(all="ignore"):
        ref.evaluate(sc, vals, X, layer_out=lo)
        ref.evaluate(sc, vals, X, mag=True, layer_out=lm)
    if sem != "sum-product":
        hidden_zero = any(np.any(np.abs(lo[l]) <= 1e-9 * np.abs(lm[l])) for l in lo)
        zero_input = any(isinstance(l, InputLayer) and np.any(lo[l] == 0) for l in lo)
    else:
        # a categorical layer evaluates log p(x) in every semiring: a probability that is exactly zero is a hidden
        # -inf there too (the safe logarithm returns a zero gradient through it)
        hidden_zero = zero_input = any(isinstance(l, CategoricalLayer) and np.any(lo[l] == 0) for l in lo)
    kind = case["functional"]
    nonzero = np.all(np.abs(r) > 1e-6 * M)
    if not nonzero and sem != "sum-product":
        # a log-space output of an (almost) zero value: the statement allows non-finite gradients there
        return {"nontrivial": False, "classes": ["reference-has-zeros-in-log-space"]}
    if kind == "log" and (sem == "sum-product" or not nonzero):
        kind = "lin"
    rng = np.random.default_rng(case["wseed"])
    w = rng.normal(size=r.shape)
    u = rng.normal(size=r.shape) if np.iscomplexobj(r) else np.zeros(r.shape)
    if kind == "log":
        S = float(np.sum(np.abs(w)))  # d log|r| is scale free
    else:
        S = float(np.sum((np.abs(w) + np.abs(u)) * M))

    grads, xgrads, compiled = {}, {}, {}
    for fold, opt in tie.FLAGS:
        tag = f"{'fold' if fold else ''}{'+' if fold and opt else ''}{'opt' if opt else ''}" or "plain"
        comp = TorchCompiler(semiring=sem, fold=fold, optimize=opt)
        with sut("compile"):
            cc = comp.compile(sc)
        tie.write_values(comp, vals)
        xt = torch.from_numpy(np.ascontiguousarray(X)).clone()
        if cont_cols:
            xt.requires_grad_(True)
        with sut(f"forward[{tag}]"):
            y = cc(xt) if spec_scope(spec) else cc()
            if not spec_scope(spec):
                y = y.unsqueeze(0).expand(X.shape[0], *y.shape)
        L = _functional_torch(y, sem, kind, w, u)
        if L.requires_grad:  # everything frozen and no continuous input: nothing to differentiate
            with sut(f"backward[{tag}]"):
                L.backward()
        g = {}
        for t in tensors:
            node, idx = comp.state.retrieve_compiled_parameter(t)
            gr = node._ptensor.grad
            if not t.learnable:
                if gr is not None and bool(torch.any(gr[idx] != 0)):
                    raise Violation("frozen-parameter-has-gradient", f"{tag}:frozen-gets-gradient",
                                    f"non-learnable tensor of shape {t.shape} received a gradient")
                continue
            g[t] = np.zeros(t.shape) if gr is None else gr[idx].detach().numpy().copy()
        grads[tag] = g
        xgrads[tag] = None if (not cont_cols or xt.grad is None) else xt.grad.detach().numpy().copy()
        compiled[tag] = cc

    # (iii) finiteness where the function value is non-zero
    if nonzero:
        for tag, g in grads.items():
            for t, a in g.items():
                if not np.all(np.isfinite(a)):
                    raise Violation("gradient-finite", f"{tag}:non-finite-gradient:{sem}",
                                    f"tensor of shape {t.shape}: {a.reshape(-1)[:6]}")
            if xgrads[tag] is not None and not np.all(np.isfinite(xgrads[tag])):
                raise Violation("gradient-finite", f"{tag}:non-finite-input-gradient:{sem}", "")

    # (i) directional derivatives vs finite differences of the reference
    def Lref(v, Xv):
        with np.errstate(all="ignore"):
            return _functional_ref(ref.evaluate(sc, v, Xv), sem, kind, w, u)

    h = 1e-4
    checked = 0
    fd_skipped = []
    for ti, t in enumerate([t for t in tensors if t.learnable] if not hidden_zero else []):
        if case["profile"] == "tiny" and np.min(np.abs(vals[t])) < 1e-3:
            continue  # a step of 1e-4 is not small for this tensor; it is covered by the cross-semiring comparison
        d = rng.normal(size=t.shape)
        if np.iscomplexobj(vals[t]):
            d = d + 1j * rng.normal(size=t.shape)

        def at(step, t=t, d=d):
            v2 = dict(vals)
            v2[t] = vals[t] + step * d
            return Lref(v2, X)

        fd1 = (at(h) - at(-h)) / (2 * h)
        fd2 = (at(h / 2) - at(-h / 2)) / h
        if not (np.isfinite(fd1) and np.isfinite(fd2)):
            continue
        if kind == "log":
            # finite differences of log|r| are only meaningful while the step changes r by a small relative
            # amount (a zero weight such as square(0) gating a large input makes tiny outputs jump by orders of
            # magnitude at any practical step); otherwise this tensor is skipped and counted
            v2 = dict(vals)
            v2[t] = vals[t] + h * d
            with np.errstate(all="ignore"):
                rh = ref.evaluate(sc, v2, X)
                rel = np.max(np.abs(rh - r) / np.abs(r))
            if not rel < 0.05:
                fd_skipped.append(ti)
                continue
        tolv = 8 * abs(fd1 - fd2) + 1e-6 * abs(fd2) + 1e-9 * S / h + 1e-300
        for tag, g in grads.items():
            dd = float(np.sum(np.real(g[t] * np.conj(d))))
            if not abs(dd - fd2) <= tolv:
                raise Violation("gradient-vs-finite-differences", f"{tag}:param-gradient:{sem}:{kind}",
                                f"tensor #{ti} shape {t.shape}: autograd {dd!r} finite-diff {fd2!r} (tol {tolv:.2e})")
        checked += 1
    if cont_cols and not hidden_zero:
        dX = np.zeros_like(X)
        dX[:, cont_cols] = rng.normal(size=(X.shape[0], len(cont_cols)))
        fd1 = (Lref(vals, X + h * dX) - Lref(vals, X - h * dX)) / (2 * h)
        fd2 = (Lref(vals, X + h / 2 * dX) - Lref(vals, X - h / 2 * dX)) / h
        if np.isfinite(fd1) and np.isfinite(fd2):
            tolv = 8 * abs(fd1 - fd2) + 1e-6 * abs(fd2) + 1e-9 * S / h + 1e-300
            for tag, xg in xgrads.items():
                dd = 0.0 if xg is None else float(np.sum(xg * dX))
                if not abs(dd - fd2) <= tolv:
                    raise Violation("gradient-vs-finite-differences", f"{tag}:input-gradient:{sem}:{kind}",
                                    f"autograd {dd!r} finite-diff {fd2!r} (tol {tolv:.2e})")
            checked += 1

    # (iv) semiring independence: the same linear-space functional differentiated through the plain sum-product
    # compilation must give the same gradients (catches wrong backward passes of the log-space machinery at
    # values that finite differences cannot resolve, e.g. positive values below machine epsilon)
    real_params = not any(np.iscomplexobj(v) for v in vals.values())
    if sem != "sum-product" and kind == "lin" and real_params and not hidden_zero and np.all(np.real(r) > 0):
        comp_sp = TorchCompiler(semiring="sum-product", fold=False, optimize=False)
        with sut("compile[sum-product]"):
            cc_sp = comp_sp.compile(sc)
        tie.write_values(comp_sp, vals)
        xs = torch.from_numpy(np.ascontiguousarray(X)).clone()
        with sut("forward[sum-product]"):
            ysp = cc_sp(xs) if spec_scope(spec) else cc_sp().unsqueeze(0).expand(X.shape[0], -1, -1)
        Lsp = (torch.from_numpy(w) * ysp).sum()
        if Lsp.requires_grad:
            Lsp.backward()
            gsp = {}
            for t in tensors:
                if t.learnable:
                    node, idx = comp_sp.state.retrieve_compiled_parameter(t)
                    gr = node._ptensor.grad
                    gsp[t] = np.zeros(t.shape) if gr is None else gr[idx].detach().numpy().copy()
            gm = max([float(np.max(np.abs(a))) for a in gsp.values() if a.size] + [0.0])
            if np.isfinite(gm):
                for ti, t in enumerate([t for t in tensors if t.learnable]):
                    diff = np.abs(np.real(grads["plain"][t]) - gsp[t])
                    if not np.all(diff <= 1e-6 * gm + 1e-12 * S + 1e-300):
                        raise Violation("gradient-semiring-independence", f"plain:differs-from-sum-product:{sem}",
                                        f"tensor #{ti} shape {t.shape}: max diff {float(np.nanmax(diff)):.3e} "
                                        f"(max |g| {gm:.3e})")
                checked += 1

    # (ii) flag independence, tensor by tensor
    g0 = grads["plain"]
    gmax = max([float(np.max(np.abs(a))) for a in g0.values() if a.size] + [0.0])
    if np.isfinite(gmax):
        for tag, g in grads.items():
            for ti, t in enumerate([t for t in tensors if t.learnable]):
                diff = np.abs(g[t] - g0[t])
                if not np.all(diff <= 1e-6 * gmax + 1e-12 * S + 1e-300):
                    raise Violation("gradient-flag-independence", f"{tag}:differs-from-plain:{sem}",
                                    f"tensor #{ti} shape {t.shape}: max diff {float(np.nanmax(diff)):.3e} "
                                    f"(max |g| {gmax:.3e})")

    classes = harness.structure_classes(spec) + [f"sem:{sem}", f"functional:{kind}", f"B:{case['B']}",
                                                 f"profile:{case['profile']}"]
    if cont_cols:
        classes.append("input-gradient")
    if any(not t.learnable for t in tensors):
        classes.append("has-frozen-tensor")
    if any(np.iscomplexobj(v) for v in vals.values()):
        classes.append("complex-parameters")
    folded = max(tie.fold_counts(compiled["fold"]), default=1) > 1
    rew = len(list(compiled["opt"].layers)) < len(list(compiled["plain"].layers)) or bool(
        {"TorchTuckerLayer", "TorchCPTLayer", "TorchTensorDotLayer"} & set(tie.layer_type_names(compiled["opt"])))
    if folded:
        classes.append("fold-group>1")
    if rew:
        classes.append("rewritten")
    if not nonzero:
        classes.append("reference-has-zeros")
    if hidden_zero:
        classes.append("hidden-zero-in-log-space(values-not-compared)")
    if zero_input:
        classes.append("input-layer-exactly-zero(log-space-semiring-or-categorical)")
    if fd_skipped:
        classes.append("log-functional:step-outside-linear-regime(tensor-skipped)")
    nt = (checked > 0 or hidden_zero) and (folded or rew or sem != "sum-product")
    return {"nontrivial": nt, "classes": sorted(set(classes))}
