"""C04 — multiply returns the pointwise product (outputs (i,j), units in Kronecker order) or refuses."""
from __future__ import annotations

from hypothesis import strategies as st

from vlib import gen, harness, opcheck, tie
from vlib.runner import Refused

ID = "C04"
BUDGET = {"quick": 1600, "thorough": 80000}
RULE = ("Generated: a skeleton (vtree, product type per region, sums above each product, input family per "
        "variable) instantiated 2-3 times with independent unit counts (1..3), repetitions of each partition "
        "(sum arity 1..2, dense or mixing), input parameterisations (categorical probs/logits, embedding, "
        "Gaussian with/without log-partition, polynomial), 1..2 outputs and renumbered variables; shapes: "
        "c1*c2, c*c (shared parameters), (c1*c2)*c3, evidence(c1,o)*evidence(c2,o), c1*conj(c2); x semiring "
        "x fold x optimize. Oracle: product of the numpy reference evaluations of the operands, output (i,j) "
        "at i*O2+j, units kron(c1_i, c2_j); any exception raised by multiply itself is a refusal. "
        "Non-trivial = multiply returned and some operand has a sum of arity > 1 or > 1 unit; distinct = hash of case.")
ASSUMPTIONS = ["float64, |lin(y)-r| <= 1e-9*M with M the product of the operands' magnitude bounds",
               "exceptions of any type raised inside functional.multiply count as refusals (the statement "
               "only constrains returned circuits); exceptions at compile/evaluation time are violations"]

PROB_INPUTS = ("cat", "catl", "emb", "gau")


@st.composite
def _case(draw, tier):
    big = tier == "thorough"
    sem = draw(st.sampled_from(["sum-product", "sum-product", "lse-sum", "complex-lse-sum"]))
    shape = draw(st.sampled_from(["pair", "pair", "pair", "square", "chain", "evidence", "conj"]))
    n = {"pair": 2, "square": 1, "chain": draw(st.sampled_from([2, 3])), "evidence": 2, "conj": 2}[shape]
    kw = dict(n=n, max_vars=4 if big else 3, max_K=3 if n < 3 else 2, skeleton=True,
              max_reps=2 if shape != "chain" else 1, kron_max_out=9 if shape != "chain" else 4)
    if sem == "lse-sum":
        bases = draw(gen.sd_pair(input_types=PROB_INPUTS, nonneg=True, **kw))
    elif sem == "sum-product":
        bases = draw(gen.sd_pair(input_types=PROB_INPUTS + ("pol",), **kw))
    else:
        bases = draw(gen.sd_pair(input_types=PROB_INPUTS + ("pol",), cx=True, **kw))
    pipe = [{"op": "base", "i": i} for i in range(n)]
    if shape == "pair":
        pipe.append({"op": "multiply", "a": 0, "b": 1})
    elif shape == "square":
        pipe.append({"op": "multiply", "a": 0, "b": 0})
    elif shape == "chain":
        if n == 2:
            pipe.append({"op": "multiply", "a": 0, "b": 1})
            pipe.append({"op": "multiply", "a": 2, "b": draw(st.sampled_from([0, 1]))})
        else:
            pipe.append({"op": "multiply", "a": 0, "b": 1})
            pipe.append({"op": "multiply", "a": 3, "b": 2} if draw(st.booleans())
                        else {"op": "multiply", "a": 2, "b": 3})
    elif shape == "conj":
        pipe.append({"op": "conjugate", "a": 1})
        pipe.append({"op": "multiply", "a": 0, "b": 2})
    else:
        dom = gen.domains_of(bases[0])
        vs = sorted(dom)
        obs_vars = draw(st.lists(st.sampled_from(vs), min_size=1, max_size=len(vs), unique=True))
        obs = []
        for v in sorted(obs_vars):
            if dom[v][0] == "d":
                obs.append([v, draw(st.integers(0, dom[v][1] - 1))])
            else:
                obs.append([v, draw(st.sampled_from([-1.5, -0.25, 0.0, 0.5, 1.25]))])
        pipe.append({"op": "evidence", "a": 0, "obs": obs})
        pipe.append({"op": "evidence", "a": 1, "obs": obs})
        pipe.append({"op": "multiply", "a": 2, "b": 3})
    return {"bases": bases, "pipe": pipe, "shape": shape, "semiring": sem, "fold": draw(st.booleans()),
            "optimize": draw(st.booleans()), "vseed": draw(st.integers(0, 2**20)),
            "profile": draw(st.sampled_from(["normal", "normal", "ints"])),
            "xseed": draw(st.integers(0, 2**20)), "B": draw(st.sampled_from([1, 2, 3, 5]))}


def strategy(tier):
    return _case(tier)


def _any_exception():
    return (Exception,)


def run_case(case):
    P = opcheck.prepare(case, refuse=_any_exception())
    X = opcheck.draw_X(P.domains, case["xseed"], case["B"])
    feat = "+".join(f for f, on in (("fold", case["fold"]), ("opt", case["optimize"])) if on) or "plain"
    res = opcheck.compare_node(P, len(P.pipe) - 1, X, "product-vs-operands", sig=f"{case['shape']}:{feat}:")
    classes = opcheck.pipe_classes(case) + [f"shape:{case['shape']}", f"B:{case['B']}"]
    nary = units = False
    for s in case["bases"]:
        classes += [c for c in harness.structure_classes(s) if c.startswith(("layer:", "nary", "mixing", "outputs:",
                                                                                 "var-id"))]
        nary |= any(L["t"] == "sum" and len(L["in"]) > 1 for L in s["layers"])
        units |= any(L.get("K", 1) > 1 for L in s["layers"])
    n_nary = sum(1 for s in case["bases"] if any(L["t"] == "sum" and len(L["in"]) > 1 for L in s["layers"]))
    if n_nary >= 2 or (case["shape"] == "square" and n_nary >= 1):
        classes.append("both-operands-nary-sum")
    if res == "degenerate":
        classes.append("degenerate-reference")
    return {"nontrivial": res == "ok" and (nary or units), "classes": sorted(set(classes))}
