"""C12 — circuits built by the templates with normalised parameterisations are normalised."""
from __future__ import annotations

import itertools

import numpy as np
import torch
from hypothesis import strategies as st

from vlib import ref, tie, tol
from vlib.runner import HarnessError, Refused, Violation, sut

ID = "C12"
BUDGET = {"quick": 960, "thorough": 40000}
RULE = ("Generated: circuits from every template family — region graphs (random binary tree, linear tree, fully "
        "factorised, quad tree 2/4, quad graph, Poon-Domingos) through build_circuit with sum_product in {cp, cp-t, "
        "tucker}, softmax weights, mixing or dense n-ary sums; image_data and tabular_data (random binary tree and "
        "Chow-Liu on generated data, per-feature input layers); pgms.hmm and pgms.fully_factorized; "
        "tensor_factorizations.cp / tucker with softmax factors and weights — x input layer in {categorical, binomial, "
        "Gaussian} x unit counts x num_classes x semiring x fold x optimize; unconstrained parameter values drawn "
        "with profiles normal / wide, then 0..2 optimiser steps (SGD / Adam) on the negative log-likelihood of "
        "generated data. Oracle: for every output unit the partition function of the numpy reference (exact input "
        "integrals; brute-force enumeration when the joint domain has <= 4096 states) equals 1 within 1e-9; the "
        "compiled symbolic integrate (or IntegrateQuery when an input has no symbolic rule) equals 1 / log 1; compiled "
        "values on in-support inputs are >= 0 and finite in log space; the brute-force sum of the compiled outputs "
        "equals 1. Non-trivial = (a region with >= 2 partitions, i.e. an n-ary sum, or >= 1 optimiser step) and all "
        "oracles evaluated; distinct = hash of case.")
ASSUMPTIONS = ["float64; |Z - 1| <= 1e-9 (1e-7 after optimiser steps in log space)",
               "the input-wise reference marginal assumes smoothness and decomposability, which C16 validates "
               "independently for the same templates"]


@st.composite
def _case(draw, tier, families=("rg", "rg", "rg", "image", "tabular", "hmm", "ff", "cp", "tucker")):
    fam = draw(st.sampled_from(list(families)))
    c = {"family": fam, "fold": draw(st.booleans()), "optimize": draw(st.booleans()),
         "semiring": draw(st.sampled_from(["sum-product", "lse-sum"])),
         "vseed": draw(st.integers(0, 2**20)), "profile": draw(st.sampled_from(["normal", "wide", "init"])),
         "steps": draw(st.sampled_from([0, 0, 1, 2])), "opt": draw(st.sampled_from(["sgd", "adam"])),
         "xseed": draw(st.integers(0, 2**20))}
    inp = draw(st.sampled_from(["categorical", "binomial", "gaussian"]))
    c["input"] = inp
    c["ncat"] = draw(st.integers(2, 4))
    c["units"] = draw(st.integers(1, 3))
    c["classes"] = draw(st.integers(1, 2))
    c["sp"] = draw(st.sampled_from(["cp", "cp-t", "tucker"]))
    c["mixing"] = draw(st.booleans())
    if fam == "rg":
        c["rg"] = draw(st.sampled_from(["rbt", "rbt", "linear", "ff", "quadtree2", "quadtree4", "quadgraph", "pd"]))
        c["n"] = draw(st.integers(2, 6))
        c["reps"] = draw(st.integers(1, 3))
        c["rgseed"] = draw(st.integers(0, 999))
        c["shape"] = [1, draw(st.integers(1, 3)), draw(st.integers(2, 3))]
    elif fam == "image":
        c["shape"] = [draw(st.integers(1, 2)), draw(st.integers(1, 3)), draw(st.integers(2, 3))]
        c["rg"] = draw(st.sampled_from(["quad-tree-2", "quad-tree-4", "quad-graph", "random-binary-tree", "poon-domingos"]))
    elif fam == "tabular":
        c["n"] = draw(st.integers(2, 5))
        c["rg"] = draw(st.sampled_from(["random-binary-tree", "chow-liu-tree"]))
        c["per_feature"] = draw(st.booleans())
        c["feat"] = [draw(st.sampled_from(["categorical", "gaussian"])) for _ in range(c["n"])]
        c["dseed"] = draw(st.integers(0, 999))
    elif fam in ("hmm", "ff"):
        n = draw(st.integers(1, 5))
        c["n"] = n
        c["ordering"] = list(draw(st.permutations(list(range(n)))))
        c["kw"] = [draw(st.integers(2, 4)) for _ in range(n)] if draw(st.booleans()) else None
    else:
        c["shape"] = [draw(st.integers(2, 4)) for _ in range(draw(st.integers(2, 4)))]
        c["input"] = draw(st.sampled_from(["categorical", "binomial"]))
    return c


def strategy(tier, families=None):
    return _case(tier) if families is None else _case(tier, families)


def build_template(c):
    """-> (symbolic circuit, domains var -> ('d', n) | ('c',))"""
    from cirkit.symbolic.parameters import mixing_weight_factory
    from cirkit.templates import data_modalities, pgms, tensor_factorizations
    from cirkit.templates import region_graph as RG
    from cirkit.templates.utils import Parameterization, name_to_input_layer_factory, parameterization_to_factory

    soft = Parameterization(activation="softmax", initialization="normal")
    fam, inp, ncat = c["family"], c["input"], c["ncat"]
    units = c["units"]
    if c["sp"] == "tucker":
        units = min(units, 2)

    def dom_of(name, k=ncat):
        return ("c",) if name == "gaussian" else (("d", k) if name == "categorical" else ("d", k))

    if fam == "rg":
        n = c["n"]
        if c["rg"] == "rbt":
            rg = RG.RandomBinaryTree(n, num_repetitions=c["reps"], seed=c["rgseed"])
        elif c["rg"] == "linear":
            rg = RG.LinearTree(n, num_repetitions=c["reps"], randomize=True, seed=c["rgseed"])
        elif c["rg"] == "ff":
            rg = RG.FullyFactorized(n, num_repetitions=c["reps"])
        elif c["rg"] in ("quadtree2", "quadtree4"):
            rg = RG.QuadTree(tuple(c["shape"]), num_patch_splits=2 if c["rg"] == "quadtree2" else 4)
        elif c["rg"] == "quadgraph":
            rg = RG.QuadGraph(tuple(c["shape"]))
        else:
            rg = RG.PoonDomingos(tuple(c["shape"]), delta=1)
        nv = len(rg.scope)
        if inp == "categorical":
            inf = name_to_input_layer_factory("categorical", num_categories=ncat)
        elif inp == "binomial":
            inf = name_to_input_layer_factory("binomial", total_count=ncat - 1)
        else:
            inf = name_to_input_layer_factory("gaussian")
        wf = parameterization_to_factory(soft)
        kw = {}
        if c["mixing"]:
            kw["nary_sum_weight_factory"] = lambda shape: mixing_weight_factory(shape, param_factory=wf)
        max_ar = max([len(rg.partition_inputs(p)) for p in rg.partition_nodes] + [1])
        if c["sp"] == "tucker" and units ** max_ar > 64:
            raise Refused("tucker too large (harness bound)")
        sc = rg.build_circuit(input_factory=inf, sum_product=c["sp"], sum_weight_factory=wf, num_input_units=units,
                              num_sum_units=units, num_classes=c["classes"], **kw)
        return sc, {v: dom_of(inp) for v in range(nv)}
    if fam == "image":
        shape = tuple(c["shape"])
        if c["sp"] == "tucker" and c["rg"] in ("quad-tree-4", "quad-graph"):
            units = 1 if units > 1 and c["rg"] == "quad-tree-4" else units
        sc = data_modalities.image_data(shape, c["rg"], input_layer=inp, num_input_units=units,
                                        sum_product_layer=c["sp"], num_sum_units=units, num_classes=c["classes"],
                                        use_mixing_weights=c["mixing"])
        nv = int(np.prod(shape))
        return sc, {v: (("c",) if inp == "gaussian" else ("d", 256)) for v in range(nv)}
    if fam == "tabular":
        n = c["n"]
        feats = c["feat"] if c["per_feature"] else [c["feat"][0]] * n
        layers = [{"name": f, "args": ({"num_categories": ncat} if f == "categorical" else {})} for f in feats]
        data = None
        if c["rg"] == "chow-liu-tree":
            rng = np.random.default_rng(c["dseed"])
            z = rng.normal(size=(40, 1))
            cols = [np.clip(np.round((z[:, 0] + rng.normal(size=40)) + 1), 0, ncat - 1) if f == "categorical"
                    else z[:, 0] + rng.normal(size=40) for f in feats]
            data = torch.from_numpy(np.stack(cols, axis=1))
            if all(f == "categorical" for f in feats):
                data = data.long()
        sc = data_modalities.tabular_data(c["rg"], num_features=n, data=data,
                                          input_layers=layers if c["per_feature"] else layers[0],
                                          num_input_units=units, sum_product_layer=c["sp"], num_sum_units=units,
                                          num_classes=c["classes"], use_mixing_weights=c["mixing"])
        return sc, {v: dom_of(f) for v, f in enumerate(feats)}
    if fam in ("hmm", "ff"):
        n = c["n"]
        kws = None
        doms = {v: dom_of(inp) for v in range(n)}
        if inp == "categorical":
            kws = [{"num_categories": k} for k in (c["kw"] or [ncat] * n)]
            doms = {v: ("d", kws[v]["num_categories"]) for v in range(n)}
        elif inp == "binomial":
            kws = [{"total_count": k - 1} for k in (c["kw"] or [ncat] * n)]
            doms = {v: ("d", kws[v]["total_count"] + 1) for v in range(n)}
        if fam == "hmm":
            sc = pgms.hmm(c["ordering"], input_layer=inp, num_latent_states=units, input_layer_kwargs=kws)
        else:
            sc = pgms.fully_factorized(n, input_layer=inp, input_layer_kwargs=kws)
        return sc, doms
    shape = tuple(c["shape"])
    pname = "probs"
    if fam == "cp":
        sc = tensor_factorizations.cp(shape, c["units"], input_layer=inp,
                                      input_params={pname: soft} if inp == "categorical" else None, weight_param=soft)
    else:
        r = min(c["units"], 2)
        if r ** len(shape) > 64:
            raise Refused("tucker too large (harness bound)")
        sc = tensor_factorizations.tucker(shape, r, input_layer=inp,
                                          input_params={pname: soft} if inp == "categorical" else None, core_param=soft)
    return sc, {v: (("d", k) if inp == "categorical" else ("d", k + 1)) for v, k in enumerate(shape)}


def run_case(case):
    import cirkit.symbolic.functional as SF
    from cirkit.backend.torch.compiler import TorchCompiler
    from cirkit.backend.torch.queries import IntegrateQuery
    from cirkit.symbolic.layers import BinomialLayer
    from cirkit.utils.scope import Scope

    with sut("template", refuse=(ValueError,)):
        sc, dom = build_template(case)
    sem = case["semiring"]
    scope = sorted(int(v) for v in sc.scope)
    D = max(scope) + 1
    comp = TorchCompiler(semiring=sem, fold=case["fold"], optimize=case["optimize"])
    torch.manual_seed(case["vseed"])
    with sut("compile"):
        cc = comp.compile(sc)
    tensors = tie.sym_tensors(sc)
    if case["profile"] != "init":
        vals = tie.draw_values(tensors, case["vseed"], case["profile"])
        tie.write_values(comp, vals)
    rng = np.random.default_rng(case["xseed"])

    def draw_data(B):
        X = np.zeros((B, D))
        for v in scope:
            X[:, v] = rng.integers(0, dom[v][1], size=B) if dom[v][0] == "d" else np.round(rng.normal(size=B), 3)
        return X

    # ---- optimiser steps on the NLL of generated data
    steps_done = 0
    if case["steps"]:
        params = [p for p in cc.parameters() if p.requires_grad]
        if params:
            optim = (torch.optim.SGD(params, lr=0.1) if case["opt"] == "sgd" else torch.optim.Adam(params, lr=0.05))
            for _ in range(case["steps"]):
                Xb = torch.from_numpy(draw_data(8))
                optim.zero_grad()
                with sut("training-forward"):
                    y = cc(Xb)
                loss = -(y if sem == "lse-sum" else torch.log(y)).mean()
                if not torch.isfinite(loss):
                    break
                with sut("training-backward"):
                    loss.backward()
                snap = [p.detach().clone() for p in params]
                optim.step()
                if not all(bool(torch.isfinite(p).all()) for p in params):
                    # numerically degenerate step (e.g. linear-space underflow of a 255-count binomial):
                    # undo it, the history stays meaningful
                    with torch.no_grad():
                        for p, q in zip(params, snap):
                            p.copy_(q)
                    break
                steps_done += 1
    vals = tie.read_values(comp, tensors)
    feat = "+".join(f for f, on in (("fold", case["fold"]), ("opt", case["optimize"])) if on) or "plain"
    sig = f"{case['family']}:{feat}:"
    # ---- (a) reference partition function
    X1 = draw_data(1)
    with np.errstate(all="ignore"):
        Zref = np.real(ref.marginal_inputwise(sc, vals, X1, scope))[0]  # (O, K)
    if not np.all(np.isfinite(Zref)):
        return {"nontrivial": False, "classes": ["degenerate-reference"]}
    atol = 1e-9 if not steps_done else 1e-7
    if np.max(np.abs(Zref - 1.0)) > atol:
        raise Violation("reference-partition-function", sig + "Z-not-one",
                        f"partition function of the denoted function: {Zref.reshape(-1)[:6]}")
    classes = [f"family:{case['family']}", f"input:{case['input']}", f"sp:{case['sp']}", f"sem:{sem}",
               f"fold:{case['fold']}", f"opt:{case['optimize']}", f"steps:{steps_done}", f"profile:{case['profile']}"]
    if case["family"] in ("rg", "image", "tabular"):
        classes.append(f"rg:{case['rg']}")
    states = 1
    for v in scope:
        states = min(10**9, states * (dom[v][1] if dom[v][0] == "d" else 10**9))
    # ---- (b) compiled integral equals one
    has_bin = any(isinstance(l, BinomialLayer) for l in sc.layers)
    if not has_bin:
        with sut("symbolic-integrate"):
            isc = SF.integrate(sc)
            icc = comp.compile(isc)
        with sut("evaluate-integral"), torch.no_grad():
            zi = tol.lin(icc(), sem)
        classes.append("oracle:symbolic-integrate")
    else:
        with sut("integrate-query"), torch.no_grad():
            zi = tol.lin(IntegrateQuery(cc)(torch.from_numpy(X1[:, :D].copy()), integrate_vars=Scope(scope)), sem)[0]
        classes.append("oracle:integrate-query")
    if zi.shape != Zref.shape or not np.all(np.abs(zi - 1.0) <= max(atol, 1e-9)):
        raise Violation("compiled-partition-function", sig + "compiled-Z-not-one",
                        f"{np.asarray(zi).reshape(-1)[:6]} (shape {zi.shape}, expected {Zref.shape})")
    # ---- (c) values on in-support inputs: non-negative, finite in log space
    Xs = draw_data(6)
    with sut("evaluate"), torch.no_grad():
        y = cc(torch.from_numpy(Xs)).numpy()
    if sem == "lse-sum":
        if not np.all(np.isfinite(y)):
            raise Violation("log-space-finite", sig + "non-finite-log-value", f"{y.reshape(-1)[:6]}")
    elif not np.all(y >= 0):
        raise Violation("non-negative", sig + "negative-value", f"{y.reshape(-1)[:6]}")
    r, M = ref.evaluate_with_mag(sc, vals, Xs)
    msg = tol.mismatch(tol.lin(y, sem), np.real(r), M)
    if msg:
        raise Violation("value-vs-reference", sig + "value", msg)
    # ---- (d) brute-force sum of the compiled outputs
    if states <= 4096:
        allX = np.zeros((states, D))
        for j, st_ in enumerate(itertools.product(*[range(dom[v][1]) for v in scope])):
            allX[j, scope] = st_
        with sut("evaluate-all-states"), torch.no_grad():
            ya = tol.lin(cc(torch.from_numpy(allX)), sem)
        tot = ya.sum(axis=0)
        if not np.all(np.abs(tot - 1.0) <= max(atol, 1e-9)):
            raise Violation("compiled-bruteforce-sum", sig + "sum-over-states-not-one", f"{tot.reshape(-1)[:6]}")
        classes.append("oracle:bruteforce-sum")
    nary = any(getattr(l, "arity", 1) > 1 and type(l).__name__ == "SumLayer" for l in sc.layers)
    if nary:
        classes.append("nary-sum")
        classes.append(f"mixing:{case['mixing']}")
    return {"nontrivial": nary or steps_done > 0, "classes": sorted(set(classes))}
