"""C07 — conjugate computes the complex conjugate (identity on real circuits), same integral, involutive."""
from __future__ import annotations

import numpy as np
from hypothesis import strategies as st

from vlib import gen, opcheck, tol
from vlib.runner import Violation, sut

ID = "C07"
BUDGET = {"quick": 1600, "thorough": 64000}
RULE = ("Generated: smooth&decomposable DAGs with real or complex parameters (complex embeddings, polynomial "
        "coefficients and sum weights under complex-lse-sum; real everything under all semirings) over inputs "
        "with a conjugation rule (embedding, categorical probs/logits, Gaussian with/without log-partition, "
        "polynomial); shapes: conj(c), conj(conj(c)), conj(c1*c2) (unnormalised Gaussians / outer-sum logits), "
        "integrate(conj(c), Z), conj(c1)*c2; x fold x optimize. Oracle: complex conjugate of "
        "the numpy reference of the operand (and brute-force marginals of it); for real parameters additionally "
        "equality with the compiled operand itself. Non-trivial = compared and (complex parameters or an input "
        "with logits / log-partition / product shape); distinct = hash of case.")
ASSUMPTIONS = ["float64/complex128; |lin(y)-r| <= 1e-9*M (1e-8*M when a Gaussian variable is integrated)"]

INPUTS = ("cat", "catl", "emb", "gau", "pol")
INTEG = ("cat", "catl", "emb", "gau")


@st.composite
def _case(draw, tier):
    big = tier == "thorough"
    cfg = opcheck.draw_cfg(draw, semirings=("sum-product", "lse-sum", "complex-lse-sum", "complex-lse-sum"))
    sem = cfg["semiring"]
    shape = draw(st.sampled_from(["conj", "conj", "conjconj", "conj-product", "integrate-conj", "integrate-conj",
                                  "product-conj"]))
    integ = shape in ("integrate-conj", "conj-integrate")
    types = INTEG if integ else INPUTS
    kw = dict(max_K=3, input_types=types, ncat_max=3)
    if sem == "lse-sum":
        kw.update(nonneg=True, input_types=tuple(t for t in types if t != "pol"))
    elif sem == "complex-lse-sum":
        kw.update(cx=True)
    if shape in ("conj-product", "product-conj"):
        bases = draw(gen.sd_pair(n=2, skeleton=True, max_reps=2, kron_max_out=9, max_vars=3, **dict(kw, max_K=2)))
    else:
        bases = [draw(gen.sd_circuit(max_vars=5 if big else 4, same_scope_outputs=integ, **kw))]
    pipe = [{"op": "base", "i": i} for i in range(len(bases))]
    scope = sorted(gen.domains_of(bases[0]))
    if shape == "conj":
        pipe.append({"op": "conjugate", "a": 0})
    elif shape == "conjconj":
        pipe += [{"op": "conjugate", "a": 0}, {"op": "conjugate", "a": 1}]
    elif shape == "conj-product":
        pipe += [{"op": "multiply", "a": 0, "b": 1}, {"op": "conjugate", "a": 2}]
    elif shape == "product-conj":
        pipe += [{"op": "conjugate", "a": 0}, {"op": "multiply", "a": 2, "b": 1}]
    elif shape == "integrate-conj":
        pipe += [{"op": "conjugate", "a": 0}, {"op": "integrate", "a": 1, "Z": opcheck.draw_subset(draw, scope)}]
    else:
        pipe += [{"op": "integrate", "a": 0, "Z": opcheck.draw_subset(draw, scope)}, {"op": "conjugate", "a": 1}]
    return dict(cfg, bases=bases, pipe=pipe, shape=shape)


def strategy(tier):
    return _case(tier)


def _is_real(case):
    def has_cx(p):
        return isinstance(p, dict) and bool(p.get("cx"))

    return not any(has_cx(v) for s in case["bases"] for L in s["layers"] for v in L.values())


def run_case(case):
    # products may be refused by multiply; conjugate / integrate have rules for every generated layer
    refuse = (Exception,) if "product" in case["shape"] else ()
    P = opcheck.prepare(case, refuse=refuse)
    last = len(P.pipe) - 1
    X = opcheck.draw_X(P.domains, case["xseed"], case["B"])
    sig = f"{case['shape']}:{opcheck.feat(case)}:"
    cont = any(n["op"] == "integrate" and any(P.domains[v][0] == "c" for v in n["Z"]) for n in P.pipe)
    res = opcheck.compare_node(P, last, X, "conjugate-vs-conj-of-operand", sig=sig, rtol=1e-8 if cont else 1e-9)
    classes = opcheck.pipe_classes(case) + opcheck.base_classes(case) + [f"shape:{case['shape']}", f"B:{case['B']}"]
    real = _is_real(case)
    classes.append("params:real" if real else "params:complex")
    if res == "ok" and real and case["shape"] in ("conj", "conjconj"):
        # identity on real circuits: same function as the compiled operand itself
        with sut("compile-operand"):
            c0 = P.comp.compile(P.scs[0])
        y0, _ = opcheck.eval_node(P, 0, X, what="evaluate-operand", cc=c0)
        y, _ = opcheck.eval_node(P, last, X)
        _, M = P.oracle.value_with_mag(last, X)
        msg = tol.mismatch(y, y0, M)
        if msg:
            raise Violation("real-conjugate-is-identity", sig + "identity", msg)
        classes.append("identity-cross-check")
    if res != "ok":
        classes.append(res)
    special = any(L["t"] == "catl" or L.get("lp") for s in case["bases"] for L in s["layers"])
    nt = res == "ok" and ((not real) or special or "product" in case["shape"])
    return {"nontrivial": nt, "classes": sorted(set(classes))}
