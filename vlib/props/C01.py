"""C01 — the compiled circuit computes the function its symbolic circuit denotes."""
from __future__ import annotations

import numpy as np
from hypothesis import strategies as st

from vlib import gen, harness, ref, tie, tol
from vlib.runner import Violation
from vlib.spec import build, spec_scope

ID = "C01"
BUDGET = {"quick": 1600, "thorough": 160000}
RULE = ("Generated: smooth&decomposable layer DAGs built by construction (G-sd: every input layer type, "
        "Hadamard/Kronecker products of arity 2..3, arity-1 / dense n-ary / mixing sums, shared sub-circuits, "
        "1..3 outputs incl. inner layers, variable ids renumbered into 0..24) and, for a quarter of the cases, circuits "
        "built by the library's own region-graph / tabular templates (cp, cp-t, tucker; mixing or dense n-ary sums), "
        "x semiring x fold x optimize x value profile x batch class (1,2,3,5, a fold count, #vars). Oracle: "
        "numpy reference interpreter on the same parameter values (written through the compiler state map): "
        "shape (B,O,K), values within the magnitude-aware bound, and row independence (single-row "
        "re-evaluation and batch permutation). Non-trivial = at least one sum and one product layer; "
        "distinct = hash of (spec, config).")
ASSUMPTIONS = ["values compared in float64 with |lin(y)-r| <= 1e-9*M, M = circuit evaluated on absolute values "
               "(a quarter of the cases run under torch's default float32 with 2e-4*M; the wide profile stays float64)",
               "lse-sum only on circuits with non-negative units; sum-product only with real parameters"]


@st.composite
def _case(draw, tier):
    big = tier == "thorough"
    sem = draw(st.sampled_from(tie.SEMIRINGS))
    kw = dict(max_vars=5 if big else 4, max_K=3)
    if sem == "lse-sum":
        spec = draw(gen.sd_circuit(input_types=gen.NONNEG_INPUTS, nonneg=True, with_const=True, **kw))
    elif sem == "sum-product":
        spec = draw(gen.sd_circuit(input_types=gen.ALL_INPUTS, with_const=True, **kw))
    else:
        spec = draw(gen.sd_circuit(input_types=gen.ALL_INPUTS, cx=True, with_const=True, **kw))
    return {"spec": spec, "semiring": sem, "fold": draw(st.booleans()), "optimize": draw(st.booleans()),
            "vseed": draw(st.integers(0, 2**20)), "profile": draw(st.sampled_from(tie.PROFILES)),
            "xseed": draw(st.integers(0, 2**20)), "bclass": draw(st.sampled_from(harness.BCLASSES)),
            # torch's default dtype is float32 and discrete data usually comes as integer tensors
            "f32": draw(st.integers(0, 3)) == 0, "xint": draw(st.integers(0, 2)) == 0,
            "xstrided": draw(st.integers(0, 3)) == 0}


@st.composite
def _rg_case(draw, tier):
    """Circuits built by the library's own templates (region graphs, tabular data): realistic shapes."""
    from vlib.props import C12

    c = draw(C12.strategy(tier, families=("rg", "rg", "rg", "tabular")))
    return {"template": c, "semiring": draw(st.sampled_from(["sum-product", "lse-sum", "complex-lse-sum"])),
            "fold": draw(st.booleans()), "optimize": draw(st.booleans()), "vseed": draw(st.integers(0, 2**20)),
            "profile": draw(st.sampled_from(tie.PROFILES)), "xseed": draw(st.integers(0, 2**20)),
            "bclass": draw(st.sampled_from(harness.BCLASSES))}


def strategy(tier):
    return st.one_of(_case(tier), _case(tier), _case(tier), _rg_case(tier))


def _run_template_case(case):
    from vlib.props import C12
    from vlib.runner import sut

    sem = case["semiring"]
    with sut("template", refuse=(ValueError,)):
        sc, dom = C12.build_template(case["template"])
    comp, cc = harness.compile_circuit(sc, sem, case["fold"], case["optimize"])
    tensors = tie.sym_tensors(sc)
    vals = tie.draw_values(tensors, case["vseed"], case["profile"])
    tie.write_values(comp, vals)
    scope = sorted(int(v) for v in sc.scope)
    B = harness.batch_size(case["bclass"], cc, len(scope))
    rng = np.random.default_rng(case["xseed"])
    X = np.zeros((B, max(scope) + 1))
    for v in scope:
        X[:, v] = rng.integers(0, dom[v][1], size=B) if dom[v][0] == "d" else np.round(rng.normal(size=B), 3)
    y = harness.evaluate(cc, X, sem)
    r, M = ref.evaluate_with_mag(sc, vals, X)
    feat = _features(None, case, cc, B)
    if tuple(y.shape) != tuple(r.shape):
        raise Violation("output-shape", f"shape:template:{feat}", f"got {tuple(y.shape)} expected {tuple(r.shape)}")
    res = harness.check_against_ref(y, np.real(r) if sem != "complex-lse-sum" else r, M, "value-vs-reference",
                                    sigprefix=f"template:{feat}:")
    t = case["template"]
    classes = [f"template:{t['family']}", f"rg:{t.get('rg')}", f"sp:{t['sp']}", f"input:{t['input']}", f"sem:{sem}",
               f"fold:{case['fold']}", f"opt:{case['optimize']}", f"B:{case['bclass']}"]
    if B in [f for f in tie.fold_counts(cc) if f > 1]:
        classes.append("B==fold-count")
    return {"nontrivial": res == "ok", "classes": classes}


def run_case(case):
    import torch

    if "template" in case:
        return _run_template_case(case)
    f32 = bool(case.get("f32")) and case.get("profile") != "wide"
    try:
        if f32:
            torch.set_default_dtype(torch.float32)
        return _run_spec_case(case, f32)
    finally:
        torch.set_default_dtype(torch.float64)


def _run_spec_case(case, f32):
    import torch

    spec = case["spec"]
    sem = case["semiring"]
    sc = build(spec)
    comp, cc = harness.compile_circuit(sc, sem, case["fold"], case["optimize"])
    tensors = tie.sym_tensors(sc)
    vals = tie.draw_values(tensors, case["vseed"], case["profile"])
    tie.write_values(comp, vals)
    nv = len(spec_scope(spec))
    B = harness.batch_size(case["bclass"], cc, nv)
    X = gen.draw_inputs_rng(spec, case["xseed"], B)
    feat = _features(spec, case, cc, B) + ("+f32" if f32 else "")
    dom = gen.domains_of(spec)
    all_discrete = bool(dom) and all(d[0] == "d" for d in dom.values())
    xint = bool(case.get("xint")) and all_discrete
    rtol = 2e-4 if f32 else tol.RTOL
    if f32:
        # the reference sees the values the float32 tensors actually hold
        vals = {t: v.astype(np.complex128 if np.iscomplexobj(v) else np.float64)
                for t, v in tie.read_values(comp, tensors).items()}

    def ev(Xv, what="evaluate"):
        if xint:
            xt = torch.from_numpy(np.ascontiguousarray(Xv)).long()
        else:
            xt = torch.from_numpy(np.ascontiguousarray(Xv)).to(torch.get_default_dtype())
        from vlib.runner import sut

        if case.get("xstrided") and xt.shape[0] > 1 and xt.shape[1] > 1:
            xt = xt.t().contiguous().t()  # same values, non-contiguous memory layout (e.g. a slice of a data set)
        with sut(what), torch.no_grad():
            out = cc(xt)
        if f32:  # compare in double precision (exp of a float32 log-value must not underflow here)
            out = out.to(torch.complex128 if out.is_complex() else torch.float64)
        return tol.lin(out, sem)

    if xint:
        feat += "+xint"
    y = ev(X)
    r, M = ref.evaluate_with_mag(sc, vals, X)
    if f32:
        M = M + 1e-26  # linear-space float32 values underflow below ~1e-38: absolute slack 2e-30
    O, K = len(spec["outputs"]), r.shape[2]
    if tuple(y.shape) != (B, O, K):
        raise Violation("output-shape", f"shape:{feat}", f"got {tuple(y.shape)} expected {(B, O, K)}")
    res = harness.check_against_ref(y, r, M, "value-vs-reference", sigprefix=f"{feat}:", rtol=rtol)
    # row independence (metamorphic)
    if res == "ok" and B > 1:
        i = case["xseed"] % B
        yi = ev(X[i:i + 1], what="evaluate-single-row")
        if tuple(yi.shape) != (1, O, K):
            raise Violation("row-independence", f"single-row-shape:{feat}", f"{tuple(yi.shape)}")
        msg = tol.mismatch(yi[0], y[i], M[i], rtol=rtol)
        if msg:
            raise Violation("row-independence", f"single-row:{feat}", msg)
        perm = np.random.default_rng(case["xseed"]).permutation(B)
        yp = ev(X[perm], what="evaluate-permuted")
        msg = tol.mismatch(yp, y[perm], M[perm], rtol=rtol)
        if msg:
            raise Violation("row-independence", f"permutation:{feat}", msg)
    types = {L["t"] for L in spec["layers"]}
    classes = harness.structure_classes(spec) + [f"sem:{sem}", f"fold:{case['fold']}", f"opt:{case['optimize']}",
                                                 f"B:{case['bclass']}", f"profile:{case['profile']}"]
    if B in [f for f in tie.fold_counts(cc) if f > 1]:
        classes.append("B==fold-count")
    if res == "degenerate":
        classes.append("degenerate-reference")
    classes.append("dtype:float32" if f32 else "dtype:float64")
    if xint:
        classes.append("integer-input-tensor")
    if case.get("xstrided"):
        classes.append("non-contiguous-input-tensor")
    nontrivial = res == "ok" and "sum" in types and bool(types & {"had", "kro"})
    return {"nontrivial": nontrivial, "classes": classes}


def _features(spec, case, cc, B):
    """Root-cause features used to bucket failures."""
    f = []
    if case["fold"]:
        f.append("fold")
    if case["optimize"]:
        f.append("opt")
    if B == 1:
        f.append("B1")
    return "+".join(f) or "plain"
