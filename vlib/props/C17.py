"""C17 — parameter initialisation follows the symbolic initialiser regardless of folding."""
from __future__ import annotations

import numpy as np
import torch
from hypothesis import strategies as st

from vlib.runner import Violation, sut

ID = "C17"
BUDGET = {"quick": 3200, "thorough": 200000}
RULE = ("Generated: 1..5 symbolic tensor parameters with drawn shape (rank 1..3, dims 1..5), data type (integer / real / "
        "complex), learnable flag and initialiser (constant scalar, constant array incl. broadcastable ones, "
        "Uniform(a,b), Normal(mu,sigma), Dirichlet(alpha scalar or list, axis in -rank..rank-1)), several of them "
        "same-shaped so that they fold; either compiled as bare parameter graphs and folded with the compiler's "
        "folding routine, or placed as embedding / sum weights of a circuit compiled with fold in {F,T}; default dtype "
        "float64 or float32; then 1..3 further reset_parameters() calls. Oracle on the slice of every symbolic tensor "
        "(through the compiler state map) after compilation and after each reset, unfolded and folded: constants and "
        "arrays are copied exactly (cast to the declared dtype); Dirichlet values are >= 0 and sum to one along the "
        "DECLARED symbolic axis; uniform values lie in [a,b]; normal / uniform samples pass a pooled |z| <= 7 test on "
        "mean and variance (>= 200 pooled entries); requires_grad == learnable; dtype = int64 / default float / "
        "matching complex; random initialisers give new values at each reset, constants do not change. Non-trivial = "
        "a parameter folded with others, or a non-default axis, or a reset; distinct = hash of case.")
ASSUMPTIONS = ["moment tests use |z| > 7 (p ~ 1e-12) and are skipped below 200 pooled entries",
               "integer tensors only with constant initialisers, complex ones with constant / normal (domain of the "
               "torch initialisers)",
               "bare parameter graphs are folded through cirkit.backend.torch.compiler._fold_parameters (private helper)"]


@st.composite
def _init(draw, shape, dtype):
    rank = len(shape)
    kinds = ["const", "array"]
    if dtype != "int":
        kinds += ["normal"]
    if dtype == "real":
        kinds += ["uniform", "dirichlet", "dirichlet"]
    k = draw(st.sampled_from(kinds))
    if k == "const":
        v = draw(st.sampled_from([0, 1, -2, 3])) if dtype == "int" else draw(st.sampled_from([0.0, 1.0, -1.5, 0.25, 2.0]))
        return {"k": "const", "v": v}
    if k == "array":
        # the array has the full shape, or a broadcastable one (leading dims dropped / size-1 dims)
        ashape = list(shape)
        mode = draw(st.integers(0, 2))
        if mode == 1 and rank > 1:
            ashape = ashape[draw(st.integers(1, rank - 1)):]
        elif mode == 2:
            ashape = [1 if draw(st.booleans()) else s for s in ashape]
        return {"k": "array", "shape": ashape, "seed": draw(st.integers(0, 999))}
    if k == "normal":
        return {"k": "normal", "mean": draw(st.sampled_from([0.0, 2.0, -1.0])), "std": draw(st.sampled_from([1.0, 0.1, 3.0]))}
    if k == "uniform":
        a = draw(st.sampled_from([0.0, -1.0, 2.0]))
        return {"k": "uniform", "a": a, "b": a + draw(st.sampled_from([1.0, 0.5, 4.0]))}
    axis = draw(st.integers(-rank, rank - 1))
    n = shape[axis % rank]
    alpha = draw(st.sampled_from([1.0, 0.5, 5.0])) if draw(st.booleans()) else \
        [draw(st.sampled_from([0.5, 1.0, 3.0])) for _ in range(n)]
    return {"k": "dirichlet", "alpha": alpha, "axis": axis}


@st.composite
def _case(draw, tier):
    mode = draw(st.sampled_from(["params", "params", "circuit"]))
    c = {"mode": mode, "f32": draw(st.booleans()), "resets": draw(st.integers(0, 3)), "tseed": draw(st.integers(0, 2**20))}
    if mode == "params":
        rank = draw(st.integers(1, 3))
        shape = [draw(st.integers(1, 5)) for _ in range(rank)]
        n = draw(st.integers(1, 5))
        ps = []
        for _ in range(n):
            sh = shape if draw(st.integers(0, 3)) else [draw(st.integers(1, 5)) for _ in range(draw(st.integers(1, 3)))]
            dtype = draw(st.sampled_from(["real", "real", "real", "int", "complex"]))
            ps.append({"shape": list(sh), "dtype": dtype, "learn": draw(st.booleans()) and dtype != "int",
                       "init": draw(_init(sh, dtype))})
        c["params"] = ps
    else:
        nv = draw(st.integers(1, 4))
        K = draw(st.integers(1, 3))
        ns = draw(st.integers(2, 4))
        c.update(nv=nv, K=K, ns=ns, fold=draw(st.booleans()), optimize=draw(st.booleans()))
        c["emb"] = [{"learn": draw(st.booleans()), "init": draw(_init([K, ns], "real"))} for _ in range(nv)]
        Ko = draw(st.integers(1, 3))
        c["sum"] = {"learn": draw(st.booleans()), "Ko": Ko, "init": draw(_init([Ko, K], "real"))}
    return c


def strategy(tier):
    return _case(tier)


def _mk_init(spec, shape):
    from cirkit.symbolic import initializers as I

    k = spec["k"]
    if k == "const":
        return I.ConstantTensorInitializer(spec["v"])
    if k == "array":
        rng = np.random.default_rng(spec["seed"])
        return I.ConstantTensorInitializer(np.round(rng.normal(size=spec["shape"]), 3))
    if k == "normal":
        return I.NormalInitializer(spec["mean"], spec["std"])
    if k == "uniform":
        return I.UniformInitializer(spec["a"], spec["b"])
    return I.DirichletInitializer(spec["alpha"], axis=spec["axis"])


def _check_slice(x, t, spec, learn, dtype, f32, where, prev):
    """x: torch tensor slice holding symbolic tensor t."""
    shape = tuple(t.shape)
    sig = f"{where}:{spec['k']}"
    if tuple(x.shape) != shape:
        raise Violation("slice-shape", sig + ":shape", f"{tuple(x.shape)} vs {shape}")
    want = {"int": torch.int64, "real": torch.float32 if f32 else torch.float64,
            "complex": torch.complex64 if f32 else torch.complex128}[dtype]
    if x.dtype != want:
        raise Violation("dtype", sig + f":dtype:{dtype}", f"{x.dtype} expected {want}")
    a = x.detach().numpy().copy()
    k = spec["k"]
    tol = 1e-5 if f32 else 1e-12
    if k == "const":
        if not np.all(a == np.asarray(spec["v"]).astype(a.dtype)):
            raise Violation("constant-copied-exactly", sig + ":value", f"{a.reshape(-1)[:4]} expected {spec['v']}")
    elif k == "array":
        rng = np.random.default_rng(spec["seed"])
        arr = np.round(rng.normal(size=spec["shape"]), 3)
        exp = np.broadcast_to(arr, shape).astype(a.dtype)
        if not np.array_equal(a, exp):
            raise Violation("constant-copied-exactly", sig + ":array-value",
                            f"max |diff| {np.max(np.abs(a - exp)):.3e} (array shape {spec['shape']} -> {shape})")
    elif k == "uniform":
        if not (np.all(a >= spec["a"]) and np.all(a <= spec["b"])):
            raise Violation("uniform-bounds", sig + ":bounds", f"range [{a.min()}, {a.max()}] vs [{spec['a']}, {spec['b']}]")
    elif k == "dirichlet":
        ax = spec["axis"] % len(shape)
        if not np.all(a >= 0):
            raise Violation("dirichlet", sig + ":negative", "")
        s = a.sum(axis=ax)
        if not np.all(np.abs(s - 1.0) <= max(tol, 1e-6 if f32 else 1e-12) * 10):
            other = [float(np.max(np.abs(a.sum(axis=j) - 1.0))) for j in range(len(shape))]
            raise Violation("dirichlet", sig + ":not-normalised-along-declared-axis",
                            f"shape {shape} axis {spec['axis']}: sums along declared axis {np.round(s.reshape(-1)[:4], 4)}; "
                            f"max |sum-1| per axis {np.round(other, 4)}")
    if not np.all(np.isfinite(a)):
        raise Violation("finite", sig + ":non-finite", "")
    if prev is not None:
        same = np.array_equal(prev, a)
        if k in ("const", "array") and not same:
            raise Violation("constant-unchanged-by-reset", sig + ":changed", "")
        if k in ("normal", "uniform", "dirichlet") and same and a.size > 1 and not (k == "dirichlet" and shape[spec["axis"] % len(shape)] == 1):
            raise Violation("random-reinitialised-by-reset", sig + ":unchanged", "")
    return a


def _moments(pool, sig):
    for key, xs in pool.items():
        k = key[0]
        v = np.concatenate([np.real(x).reshape(-1) for x in xs] + [np.imag(x).reshape(-1) for x in xs if np.iscomplexobj(x)])
        n = v.size
        if n < 200:
            continue
        if k == "normal":
            mu, sd = key[1], key[2]
            if any(np.iscomplexobj(x) for x in xs):
                continue  # complex normal: variance split between real and imaginary parts (not specified)
        else:
            mu, sd = (key[1] + key[2]) / 2, (key[2] - key[1]) / np.sqrt(12)
        z = (v.mean() - mu) / (sd / np.sqrt(n))
        kurt = 3.0 if k == "normal" else 1.8
        zv = (v.var() - sd**2) / (sd**2 * np.sqrt((kurt - 1) / n))
        if abs(z) > 7 or abs(zv) > 7:
            raise Violation("moments", sig + f"{k}-moments", f"n={n} mean {v.mean():.4f} (expected {mu}) var {v.var():.4f} "
                            f"(expected {sd**2:.4f}) z={z:.1f} zv={zv:.1f}")


def run_case(case):
    from cirkit.backend.torch.compiler import TorchCompiler, _fold_parameters
    from cirkit.symbolic.dtypes import DataType
    from cirkit.symbolic.parameters import Parameter, TensorParameter

    f32 = case["f32"]
    torch.set_default_dtype(torch.float32 if f32 else torch.float64)
    torch.manual_seed(case["tseed"])
    DT = {"int": DataType.INTEGER, "real": DataType.REAL, "complex": DataType.COMPLEX}
    classes = [f"mode:{case['mode']}", "default:" + ("float32" if f32 else "float64"), f"resets:{case['resets']}"]
    nontrivial = case["resets"] > 0
    try:
        if case["mode"] == "params":
            comp = TorchCompiler()
            items = []
            for p in case["params"]:
                t = TensorParameter(*p["shape"], initializer=_mk_init(p["init"], p["shape"]), learnable=p["learn"],
                                    dtype=DT[p["dtype"]])
                with sut("compile-parameter"):
                    tp = comp.compile_parameter(Parameter.from_input(t))
                items.append((t, p, tp))
                classes.append(f"init:{p['init']['k']}")
                classes.append(f"dtype:{p['dtype']}")
                if p["init"]["k"] == "dirichlet" and p["init"]["axis"] != -1:
                    classes.append("dirichlet-non-default-axis")
                    nontrivial = True

            def read(t):
                node, idx = comp.state.retrieve_compiled_parameter(t)
                return node, node._ptensor[idx]

            prev = {}
            pool = {}

            def check_all(where, resetters):
                for r in range(1 + case["resets"]):
                    for f in resetters:
                        with sut(f"reset[{where}]"):
                            f()
                    for t, p, _ in items:
                        node, x = read(t)
                        if bool(node._ptensor.requires_grad) != bool(p["learn"]) and p["dtype"] != "int":
                            raise Violation("requires-grad", f"{where}:requires-grad", f"{node._ptensor.requires_grad} vs learnable {p['learn']}")
                        a = _check_slice(x, t, p["init"], p["learn"], p["dtype"], f32, where, prev.get((where, id(t))))
                        prev[(where, id(t))] = a
                        i = p["init"]
                        if i["k"] == "normal":
                            pool.setdefault(("normal", i["mean"], i["std"]), []).append(a)
                        elif i["k"] == "uniform":
                            pool.setdefault(("uniform", i["a"], i["b"]), []).append(a)

            check_all("unfolded", [tp.reset_parameters for _, _, tp in items])
            # fold same-shaped (and same dtype / learnable) tensors together
            groups = {}
            for t, p, tp in items:
                groups.setdefault((tuple(p["shape"]), p["dtype"], p["learn"]), []).append(tp)
            folded = []
            for key, tps in groups.items():
                with sut("fold-parameters"):
                    folded.append(_fold_parameters(comp, tps))
                if len(tps) > 1:
                    nontrivial = True
                    classes.append("fold-group>1")
            check_all("folded", [f.reset_parameters for f in folded])
            _moments(pool, "params:")
        else:
            from cirkit.symbolic.circuit import Circuit
            from cirkit.symbolic.layers import EmbeddingLayer, HadamardLayer, SumLayer
            from cirkit.utils.scope import Scope

            nv, K, ns = case["nv"], case["K"], case["ns"]
            tens = []
            layers, in_layers = [], {}
            embs = []
            for v, e in enumerate(case["emb"]):
                t = TensorParameter(K, ns, initializer=_mk_init(e["init"], [K, ns]), learnable=e["learn"])
                tens.append((t, e))
                embs.append(EmbeddingLayer(Scope([v]), K, num_states=ns, weight=Parameter.from_input(t)))
            layers += embs
            top = embs[0]
            if nv > 1:
                top = HadamardLayer(K, arity=nv)
                layers.append(top)
                in_layers[top] = embs
            s = case["sum"]
            wshape = [s["Ko"], K]
            t = TensorParameter(*wshape, initializer=_mk_init(s["init"], wshape), learnable=s["learn"])
            tens.append((t, s))
            sl = SumLayer(K, wshape[0], weight=Parameter.from_input(t))
            layers.append(sl)
            in_layers[sl] = [top]
            sc = Circuit(layers, in_layers, [sl])
            comp = TorchCompiler(fold=case["fold"], optimize=case["optimize"])
            with sut("compile"):
                cc = comp.compile(sc)
            where = "circuit-folded" if case["fold"] else "circuit-unfolded"
            prev, pool = {}, {}
            for r in range(1 + case["resets"]):
                if r > 0:
                    with sut("reset_parameters"):
                        cc.reset_parameters()
                for t, e in tens:
                    node, idx = comp.state.retrieve_compiled_parameter(t)
                    if bool(node._ptensor.requires_grad) != bool(e["learn"]):
                        raise Violation("requires-grad", f"{where}:requires-grad", "")
                    a = _check_slice(node._ptensor[idx], t, e["init"], e["learn"], "real", f32, where, prev.get(id(t)))
                    prev[id(t)] = a
                    i = e["init"]
                    if i["k"] == "normal":
                        pool.setdefault(("normal", i["mean"], i["std"]), []).append(a)
                    elif i["k"] == "uniform":
                        pool.setdefault(("uniform", i["a"], i["b"]), []).append(a)
                    if r == 0:
                        classes.append(f"init:{i['k']}")
                        if i["k"] == "dirichlet" and i["axis"] != -1:
                            classes.append("dirichlet-non-default-axis")
                            nontrivial = True
                    if node.num_folds > 1:
                        nontrivial = True
                        if r == 0:
                            classes.append("fold-group>1")
            _moments(pool, "circuit:")
    finally:
        torch.set_default_dtype(torch.float64)
    return {"nontrivial": nontrivial, "classes": sorted(set(classes))}
