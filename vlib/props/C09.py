"""C09 — operators refuse invalid inputs; results keep the promised structure."""
from __future__ import annotations

from hypothesis import strategies as st

from vlib import defs, gen
from vlib.runner import Refused, Violation, sut
from vlib.spec import build, spec_scope

ID = "C09"
BUDGET = {"quick": 3200, "thorough": 240000}
RULE = ("Generated: unconstrained layer DAGs (G-any: sums over different scopes, overlapping products, constant "
        "layers; embedding / polynomial / categorical leaves) and smooth&decomposable ones (G-sd), pairs on equal "
        "or different vtrees, with valid and invalid operator arguments (Z not a subset / empty, order in {-1,0}, "
        "empty observation, observed variable outside the scope, operands of different scope). Oracle, decided by "
        "the independent set-based definitions of vlib/defs.py: integrate/differentiate must raise "
        "StructuralPropertyError on a non-smooth or non-decomposable operand (ValueError also accepted when the "
        "arguments are invalid too) and multiply must raise on pairs that are invalid, of different scope or split "
        "some scope differently (also when both operands are the very same circuit object); invalid arguments must raise ValueError; whenever an operator returns, the result "
        "is smooth and decomposable by the independent definitions, has the documented scope and number of outputs, "
        "products of SD operands are SD and compatible with both operands (library and independent predicates) and "
        "conjugate / concatenate / evidence keep the flags; query constructors raise ValueError on invalid compiled "
        "circuits. Non-trivial = the operand or arguments are invalid (refusal checked) or the operator returned "
        "(structure checked); distinct = hash of case.")
ASSUMPTIONS = ["structural validity is decided by vlib/defs.py on the layer graph, never by the library's own flags"]


@st.composite
def _case(draw, tier):
    big = tier == "thorough"
    mode = draw(st.sampled_from(["unary-any", "unary-any", "unary-valid", "badargs", "pair-compatible",
                                 "pair-other", "pair-any", "query", "square-any", "square-sd"]))
    mv = 5 if big else 4
    leaf = draw(st.sampled_from(["emb", "pol", "cat"]))
    sdkw = dict(max_vars=mv, max_K=2, input_types=(leaf,), gauss_lp=False, deg_max=1, ncat_max=2)
    c = {"mode": mode, "leaf": leaf, "b": None}
    if mode in ("unary-any", "query"):
        c["a"] = draw(gen.any_circuit(max_vars=mv, max_layers=10 if big else 7, leaf=leaf))
    elif mode in ("unary-valid", "badargs"):
        c["a"] = draw(gen.sd_circuit(same_scope_outputs=draw(st.booleans()), **sdkw))
    elif mode == "square-any":  # the very same circuit object as both operands
        c["a"] = draw(gen.any_circuit(max_vars=mv, max_layers=8, leaf=leaf))
        c["b"] = "same"
    elif mode == "square-sd":
        c["a"] = draw(gen.sd_circuit(structured=draw(st.booleans()), **sdkw))
        c["b"] = "same"
    elif mode == "pair-compatible":
        c["a"], c["b"] = draw(gen.sd_pair(skeleton=True, max_reps=2, kron_max_out=4, **sdkw))
    elif mode == "pair-other":
        c["a"], c["b"] = draw(gen.sd_pair(same_vtree=False, **sdkw))
    else:
        c["a"] = draw(gen.any_circuit(max_vars=3, max_layers=6, renumber=False, leaf=leaf))
        c["b"] = draw(gen.any_circuit(max_vars=3, max_layers=6, renumber=False, leaf=leaf))
    scope = sorted(spec_scope(c["a"]))
    c["op"] = draw(st.sampled_from(["integrate", "integrate", "differentiate", "differentiate", "conjugate",
                                    "evidence", "concatenate"])) if c["b"] is None else "multiply"
    outside = [v for v in range(0, 27) if v not in scope]
    if mode == "badargs":
        c["op"] = draw(st.sampled_from(["integrate", "differentiate", "evidence"]))
        c["bad"] = draw(st.sampled_from(["outside", "empty"])) if c["op"] != "differentiate" else "order"
    else:
        c["bad"] = None
    if c["op"] == "integrate":
        if c["bad"] == "outside":
            c["Z"] = sorted(set(draw(st.lists(st.sampled_from(scope), max_size=2)) if scope else []) |
                            {draw(st.sampled_from(outside))})
        elif c["bad"] == "empty":
            c["Z"] = []
        else:
            c["Z"] = None if (not scope or draw(st.integers(0, 3)) == 0) else sorted(set(
                draw(st.lists(st.sampled_from(scope), min_size=1, max_size=len(scope)))))
    elif c["op"] == "differentiate":
        c["order"] = draw(st.sampled_from([0, -1])) if c["bad"] else draw(st.sampled_from([1, 1, 2]))
    elif c["op"] == "evidence":
        if c["bad"] == "outside":
            c["obs"] = [[draw(st.sampled_from(outside)), 0]]
        elif c["bad"] == "empty" or not scope:
            c["obs"] = []
            c["bad"] = "empty"
        else:
            vs = sorted(set(draw(st.lists(st.sampled_from(scope), min_size=1, max_size=len(scope)))))
            c["obs"] = [[v, draw(st.integers(0, 1))] for v in vs]
    return c


def strategy(tier):
    return _case(tier)


def _strip(s):
    return {"layers": s["layers"], "outputs": s["outputs"]}


def _valid(view):
    return defs.is_smooth(view) and defs.is_decomposable(view)


def _check_result_structure(res, what, want_scope=None, want_outputs=None, must_be_valid=True):
    view = defs.view_from_circuit(res)
    if must_be_valid and not _valid(view):
        raise Violation("result-structure", f"{what}:result-not-smooth-decomposable",
                        f"smooth={defs.is_smooth(view)} decomposable={defs.is_decomposable(view)}")
    if must_be_valid and not (res.is_smooth and res.is_decomposable):
        raise Violation("result-structure", f"{what}:result-flags", "library flags say not smooth/decomposable")
    if want_scope is not None and frozenset(int(v) for v in res.scope) != frozenset(want_scope):
        raise Violation("result-scope", f"{what}:scope", f"{sorted(res.scope)} expected {sorted(want_scope)}")
    if want_outputs is not None and len(list(res.outputs)) != want_outputs:
        raise Violation("result-outputs", f"{what}:num-outputs", f"{len(list(res.outputs))} expected {want_outputs}")
    return view


def run_case(case):
    import cirkit.symbolic.functional as SF
    from cirkit.symbolic.circuit import StructuralPropertyError, are_compatible
    from cirkit.symbolic.registry import OperatorSignatureNotFound
    from cirkit.utils.scope import Scope

    a = _strip(case["a"])
    with sut("build-circuit"):
        sa = build(a)
    va = defs.view_from_spec(a)
    valid_a = _valid(va)
    scope_a = spec_scope(a)
    Oa = len(a["outputs"])
    op = case["op"]
    classes = [f"mode:{case['mode']}", f"op:{op}", f"leaf:{case['leaf']}", "operand:" + ("valid" if valid_a else "invalid")]
    res = None
    err = None

    if case.get("b") == "same":
        classes.append("same-object-operands")
    if case["mode"] == "query":
        from cirkit.backend.torch.compiler import TorchCompiler
        from cirkit.backend.torch.queries import IntegrateQuery, SamplingQuery

        with sut("compile"):
            cc = TorchCompiler().compile(sa)
        for Q in (IntegrateQuery, SamplingQuery):
            try:
                Q(cc)
                raised = None
            except ValueError as e:
                raised = e
            except Exception as e:  # pylint: disable=broad-except
                raise Violation("query-constructor", f"{Q.__name__}:wrong-exception", f"{type(e).__name__}: {e}") from e
            if not valid_a and raised is None:
                raise Violation("query-constructor", f"{Q.__name__}:accepts-invalid-circuit",
                                f"smooth={defs.is_smooth(va)} decomposable={defs.is_decomposable(va)}")
            if valid_a and raised is not None and "smooth" in str(raised) and Q is IntegrateQuery:
                raise Violation("query-constructor", f"{Q.__name__}:rejects-valid-circuit", str(raised)[:200])
        return {"nontrivial": True, "classes": classes}

    def call(f):
        nonlocal res, err
        try:
            res = f()
        except (StructuralPropertyError, ValueError, NotImplementedError, OperatorSignatureNotFound,
                AssertionError) as e:
            err = e
        except Exception as e:  # pylint: disable=broad-except
            raise Violation("unexpected-exception", f"{op}:{type(e).__name__}", str(e)[:300]) from e

    if op == "integrate":
        Z = case["Z"]
        call(lambda: SF.integrate(sa, scope=None if Z is None else Scope(Z)))
        bad = case["bad"] is not None or (Z is None and not scope_a)
        if not valid_a and not isinstance(err, (StructuralPropertyError, ValueError) if bad else StructuralPropertyError):
            raise Violation("must-refuse-invalid-structure", "integrate:" + ("returned" if err is None else
                            type(err).__name__), "operand is not smooth and decomposable")
        if valid_a and bad and not isinstance(err, ValueError):
            raise Violation("must-reject-invalid-arguments", f"integrate:{case['bad']}:" + (
                "returned" if err is None else type(err).__name__), f"Z={Z} scope={sorted(scope_a)}")
        if res is not None:
            Zs = scope_a if Z is None else frozenset(Z)
            _check_result_structure(res, "integrate", scope_a - Zs, Oa)
    elif op == "differentiate":
        call(lambda: SF.differentiate(sa, order=case["order"]))
        bad = case["order"] <= 0
        if not valid_a and not isinstance(err, (StructuralPropertyError, ValueError) if bad else StructuralPropertyError):
            raise Violation("must-refuse-invalid-structure", "differentiate:" + ("returned" if err is None else
                            type(err).__name__), "operand is not smooth and decomposable")
        if valid_a and bad and not isinstance(err, ValueError):
            raise Violation("must-reject-invalid-arguments", "differentiate:order:" + (
                "returned" if err is None else type(err).__name__), f"order={case['order']}")
        if res is not None:
            # per output layer: one derivative per variable of ITS scope, then the layer itself
            _check_result_structure(res, "differentiate", scope_a, sum(len(va[o][2]) + 1 for o in a["outputs"]))
    elif op == "evidence":
        obs = {int(v): x for v, x in case["obs"]}
        call(lambda: SF.evidence(sa, obs))
        if case["bad"] and not isinstance(err, ValueError):
            raise Violation("must-reject-invalid-arguments", f"evidence:{case['bad']}:" + (
                "returned" if err is None else type(err).__name__), f"obs={obs} scope={sorted(scope_a)}")
        if res is not None:
            view = _check_result_structure(res, "evidence", scope_a - frozenset(obs), Oa, must_be_valid=valid_a)
            if (bool(res.is_smooth), bool(res.is_decomposable)) != (defs.is_smooth(view), defs.is_decomposable(view)):
                raise Violation("result-structure", "evidence:flags-vs-definition", "")
    elif op == "conjugate":
        call(lambda: SF.conjugate(sa))
        if res is not None:
            _check_result_structure(res, "conjugate", scope_a, Oa, must_be_valid=valid_a)
            f0 = (bool(sa.is_smooth), bool(sa.is_decomposable), bool(sa.is_structured_decomposable),
                  bool(sa.is_omni_compatible))
            f1 = (bool(res.is_smooth), bool(res.is_decomposable), bool(res.is_structured_decomposable),
                  bool(res.is_omni_compatible))
            if f0 != f1:
                raise Violation("conjugate-preserves-flags", "conjugate:flags-change", f"{f0} -> {f1}")
    elif op == "concatenate":
        call(lambda: SF.concatenate([sa, sa]))
        if res is None:
            raise Violation("concatenate-must-return", f"concatenate:{type(err).__name__}", str(err)[:200])
        _check_result_structure(res, "concatenate", scope_a, 2 * Oa, must_be_valid=valid_a)
    else:  # multiply
        if case["b"] == "same":
            b, sb = a, sa
        else:
            b = _strip(case["b"])
            with sut("build-circuit"):
                sb = build(b)
        vb = defs.view_from_spec(b)
        valid_b = _valid(vb)
        scope_b = spec_scope(b)
        classes.append("operand-b:" + ("valid" if valid_b else "invalid"))
        try:
            res = SF.multiply(sa, sb)
        except Exception as e:  # pylint: disable=broad-except
            err = e  # any error counts as a refusal for multiply (C04)
        compatible = valid_a and valid_b and scope_a == scope_b and defs.same_split_everywhere(va, vb)
        classes.append("pair:" + ("compatible" if compatible else "not-compatible"))
        if not compatible and res is not None:
            why = ("invalid operand" if not (valid_a and valid_b) else
                   "different scopes" if scope_a != scope_b else "different splits of one scope")
            raise Violation("must-refuse-incompatible-pair", f"multiply:returned:{why.replace(' ', '-')}", why)
        if res is not None:
            view = _check_result_structure(res, "multiply", scope_a, Oa * len(b["outputs"]))
            sd_ops = defs.same_split_everywhere(va) and defs.same_split_everywhere(vb)
            if sd_ops:
                if not defs.same_split_everywhere(view, va, vb):
                    raise Violation("product-structure", "multiply:result-splits-differ-from-operands", "")
                full_outputs = all(va[o][2] == scope_a for o in a["outputs"]) and all(
                    vb[o][2] == scope_b for o in b["outputs"])
                if sa.is_structured_decomposable and sb.is_structured_decomposable:
                    if not res.is_structured_decomposable:
                        raise Violation("product-structure", "multiply:result-not-structured-decomposable", "")
                    # the library's (conservative) predicate is only demanded when every output of the operands
                    # covers the whole scope: products of outputs over disjoint scopes introduce a product over a
                    # scope the operands never factorise, which the predicate answers "not compatible" to
                    if full_outputs and not (are_compatible(res, sa) and are_compatible(res, sb)
                                             and are_compatible(sa, res)):
                        raise Violation("product-structure", "multiply:result-not-compatible-with-operands", "")
    if err is not None:
        classes.append("raised:" + type(err).__name__)
    else:
        classes.append("returned")
    invalid_case = ((not valid_a) or bool(case["bad"]) or (op == "multiply" and "pair:not-compatible" in classes)
                    or (op == "integrate" and case.get("Z") is None and not scope_a))
    if err is not None and not invalid_case and op != "multiply":
        # a valid operand with valid arguments was refused: only rule-less layers are a documented reason
        if not isinstance(err, (OperatorSignatureNotFound, NotImplementedError)):
            raise Violation("valid-input-refused", f"{op}:{type(err).__name__}", str(err)[:300])
    return {"nontrivial": invalid_case or res is not None, "classes": classes}
