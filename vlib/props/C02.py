"""C02 — folding and optimisation never change the computed function; parameters stay addressable."""
from __future__ import annotations

import numpy as np
import torch
from hypothesis import strategies as st

from vlib import gen, harness, opcheck, ops, tie, tol
from vlib.runner import Violation, sut
from vlib.spec import build

ID = "C02"
BUDGET = {"quick": 1200, "thorough": 64000}
RULE = ("Generated: (a) smooth&decomposable layer DAGs over every input type with constant layers, shared "
        "sub-circuits, 1..3 outputs incl. inner layers that also feed other layers, sibling sums with different "
        "parameterisations of equal shape; (b) operator pipelines of 1..3 operators (integrate, multiply, "
        "differentiate, conjugate, evidence, concatenate) over 1..2 skeleton-sharing base circuits. Each case is "
        "compiled by four compilers (fold, optimize) in {F,T}^2 from the same symbolic objects; the same values "
        "are written to every symbolic tensor through each compiler's state map. Oracle: all four outputs agree "
        "with each other and with the numpy reference (operand-based for pipelines) within the magnitude-aware "
        "bound; addressability: every symbolic tensor is registered as a distinct (tensor node, fold index) with "
        "matching shape / dtype / requires_grad, 0 <= idx < folds, and a sentinel written to one slice changes no "
        "other parameter's read-back. Non-trivial = compared and (a fold group of size > 1 or a rewritten layer / "
        "parameter type or fewer layers under optimize); distinct = hash of case.")
ASSUMPTIONS = ["float64; |lin(y)-r| <= 1e-9*M (1e-8*M if a Gaussian variable is integrated)",
               "values are tied through compiler.state.retrieve_compiled_parameter (semi-public API)"]

OPT_LAYER_TYPES = {"TorchTuckerLayer", "TorchCPTLayer", "TorchTensorDotLayer"}
OPT_PARAM_TYPES = {"TorchMatMulParameter", "TorchLogSoftmaxParameter", "TorchEinsumParameter", "TorchFlattenParameter"}


@st.composite
def _single(draw, tier):
    big = tier == "thorough"
    cfg = opcheck.draw_cfg(draw)
    sem = cfg["semiring"]
    kw = dict(max_vars=5 if big else 4, max_K=3, with_const=True)
    if sem == "lse-sum":
        spec = draw(gen.sd_circuit(input_types=gen.NONNEG_INPUTS, nonneg=True, **kw))
    elif sem == "sum-product":
        spec = draw(gen.sd_circuit(input_types=gen.ALL_INPUTS, **kw))
    else:
        spec = draw(gen.sd_circuit(input_types=gen.ALL_INPUTS, cx=True, **kw))
    spec = gen.unlearn(draw, spec, p=8)
    return dict(cfg, bases=[spec], pipe=[{"op": "base", "i": 0}], family="single")


def strategy(tier):
    return st.one_of(_single(tier), opcheck.pipeline_strategy(max_ops=3, max_vars=4 if tier == "thorough" else 3))


def check_addressable(comp, tensors, sig):
    from cirkit.backend.torch.parameters.nodes import TorchTensorParameter
    from cirkit.symbolic.dtypes import DataType

    seen = {}
    for t in tensors:
        try:
            node, idx = comp.state.retrieve_compiled_parameter(t)
        except Exception as e:  # pylint: disable=broad-except
            raise Violation("addressability", sig + "not-registered", f"{type(e).__name__}: {e}") from e
        if not isinstance(node, TorchTensorParameter):
            raise Violation("addressability", sig + "not-a-tensor", type(node).__name__)
        if tuple(node.shape) != tuple(t.shape):
            raise Violation("addressability", sig + "shape", f"{tuple(node.shape)} vs symbolic {tuple(t.shape)}")
        if not 0 <= idx < node.num_folds:
            raise Violation("addressability", sig + "fold-index-range", f"idx {idx} folds {node.num_folds}")
        key = (id(node), int(idx))
        if key in seen:
            raise Violation("addressability", sig + "slice-shared", "two symbolic tensors map to one slice")
        seen[key] = t
        pt = node._ptensor
        if pt is None:
            raise Violation("addressability", sig + "uninitialised", "compiled tensor has no storage")
        if tuple(pt.shape) != (node.num_folds,) + tuple(t.shape):
            raise Violation("addressability", sig + "storage-shape", f"{tuple(pt.shape)}")
        if bool(pt.requires_grad) != bool(t.learnable):
            raise Violation("addressability", sig + "requires-grad", f"{pt.requires_grad} vs learnable {t.learnable}")
        want_cx = t.dtype == DataType.COMPLEX
        if bool(pt.is_complex()) != want_cx:
            raise Violation("addressability", sig + "dtype", f"{pt.dtype} vs {t.dtype}")


def sentinel_check(comp, tensors, vals, pick, sig):
    if len(tensors) < 2:
        return
    t0 = tensors[pick % len(tensors)]
    node, idx = comp.state.retrieve_compiled_parameter(t0)
    with torch.no_grad():
        node._ptensor.data[idx] += 12345.0
    try:
        back = tie.read_values(comp, [t for t in tensors if t is not t0])
        for t, v in back.items():
            if not np.array_equal(v, np.asarray(vals[t]).astype(v.dtype)):
                raise Violation("addressability", sig + "sentinel-leak", "writing one slice changed another parameter")
    finally:
        with torch.no_grad():
            node._ptensor.data[idx] -= 12345.0
        tie.write_values(comp, {t0: vals[t0]})


def run_case(case):
    from cirkit.backend.torch.compiler import TorchCompiler

    base_specs = [{"layers": s["layers"], "outputs": s["outputs"]} for s in case["bases"]]
    base_scs = [build(s) for s in base_specs]
    scs = ops.build_pipeline(case["pipe"], base_scs)
    target = scs[-1]
    sem = case["semiring"]
    domains = opcheck.domains_of_case(case)
    vals = tie.draw_values(tie.sym_tensors(*base_scs), case["vseed"], case["profile"])
    if case.get("values"):  # hand-written regression cases: explicit values in the order of tie.sym_tensors
        vals = {t: np.asarray(v, dtype=np.float64).reshape(t.shape)
                for t, v in zip(tie.sym_tensors(*base_scs), case["values"])}
    used = ops.used_bases(case["pipe"])
    tensors = tie.sym_tensors(*[base_scs[i] for i in used])  # operands of the target are compiled with it
    oracle = ops.PipeOracle(case["pipe"], base_specs, base_scs, vals, domains)
    last = len(case["pipe"]) - 1
    empty = not oracle.scopes[last]
    compiled = {}
    for fold, opt in tie.FLAGS:
        tag = f"{'fold' if fold else ''}{'+' if fold and opt else ''}{'opt' if opt else ''}" or "plain"
        comp = TorchCompiler(semiring=sem, fold=fold, optimize=opt)
        with sut("compile", sig=""):
            cc = comp.compile(target)
        check_addressable(comp, tensors, f"{tag}:")
        tie.write_values(comp, {t: vals[t] for t in tensors})
        sentinel_check(comp, tensors, vals, case["vseed"], f"{tag}:")
        compiled[(fold, opt)] = (comp, cc, tag)
    comp0, cc0, _ = compiled[(True, False)]
    nv = len(oracle.scopes[last])
    B = harness.batch_size(case.get("bclass", case["B"]), cc0, nv)
    X = opcheck.draw_X(domains, case["xseed"], B)
    try:
        r, M = oracle.value_with_mag(last, X)
    except ops.GridTooLarge:
        r = M = None
    outs = {}
    for key, (comp, cc, tag) in compiled.items():
        y = harness.evaluate(cc, None if empty else X, sem, what=f"evaluate[{tag}]")
        if empty:
            if y.ndim != 2:
                raise Violation("output-shape", f"{tag}:empty-scope-shape", f"{tuple(y.shape)}")
            y = np.broadcast_to(y[None], (B,) + y.shape)
        outs[key] = y
    res = "ok"
    rtol = 1e-8 if _cont(case, oracle, domains) else 1e-9
    if r is not None:
        for key, (comp, cc, tag) in compiled.items():
            res = harness.check_against_ref(outs[key], r, M, "flags-vs-reference", sigprefix=f"{tag}:", rtol=rtol)
            if res != "ok":
                break
    else:
        res = "grid-too-large"
    if res == "ok":
        y0 = outs[(False, False)]
        for key, (comp, cc, tag) in compiled.items():
            msg = tol.mismatch(outs[key], y0, M, rtol=rtol)
            if msg:
                raise Violation("flags-vs-plain", f"{tag}:differs-from-plain", msg)
    # non-triviality: what folding / optimisation actually did
    classes = opcheck.pipe_classes(case) + opcheck.base_classes(case) + [f"family:{case['family']}", f"B:{B}"]
    classes = [c for c in classes if not c.startswith(("fold:", "opt:"))]
    plain_layers = len(list(compiled[(False, False)][1].layers))
    folded = max(tie.fold_counts(compiled[(True, False)][1]), default=1) > 1
    opt_cc = compiled[(False, True)][1]
    lt = set(tie.layer_type_names(opt_cc)) & OPT_LAYER_TYPES
    pt = set(tie.param_node_type_names(opt_cc)) & OPT_PARAM_TYPES
    fewer = len(list(opt_cc.layers)) < plain_layers
    classes += [f"rewrite:{n}" for n in sorted(lt | pt)]
    if fewer:
        classes.append("rewrite:fewer-layers")
    if folded:
        classes.append("fold-group>1")
    if res != "ok":
        classes.append(res)
    return {"nontrivial": res == "ok" and (folded or bool(lt or pt) or fewer), "classes": sorted(set(classes))}


def _cont(case, oracle, domains):
    for i, n in enumerate(case["pipe"]):
        if n["op"] == "integrate":
            Z = n["Z"] if n.get("Z") is not None else sorted(oracle.scopes[n["a"]])
            if any(domains[v][0] == "c" for v in Z):
                return True
    return False
