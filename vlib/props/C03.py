"""C03 — integrate returns exactly the marginal / partition function."""
from __future__ import annotations

from hypothesis import strategies as st

from vlib import gen, opcheck
from vlib.runner import Violation

ID = "C03"
BUDGET = {"quick": 1600, "thorough": 64000}
RULE = ("Generated: smooth&decomposable DAGs (several partitions per scope, shared sub-circuits, 1..3 outputs, "
        "Hadamard/Kronecker, n-ary dense/mixing sums, renumbered variables) over inputs that have an integration "
        "rule (categorical probs/logits, embedding, Gaussian with/without log-partition), optionally a product "
        "of two such circuits (unnormalised Gaussians, outer-sum logits) or a conditioned one; a drawn non-empty "
        "Z (singletons, proper subsets, full scope, None), or nested Z1 then Z2; x semiring x fold x optimize. "
        "Oracle: brute-force sum over the joint domain of the discrete variables in Z and trapezoid quadrature "
        "(step sigma_min/(2 sqrt(#factors)), +-9 sigma) over the Gaussian ones, of the numpy reference of the "
        "OPERAND, at drawn assignments of the remaining variables; full scope => compiled circuit called without "
        "input, shape (O,K); scope of the result == scope - Z. Non-trivial = compared and (|Z| >= 2 proper subset, "
        "or > 1 output, or an unnormalised input, or nested/product shape); distinct = hash of case.")
ASSUMPTIONS = ["float64; |lin(y)-r| <= 1e-9*M for discrete Z, 1e-8*M when Z contains a Gaussian variable "
               "(trapezoid error ~ exp(-8 pi^2), truncation exp(-40), both relative to each term's own integral)",
               "joint grid over Z bounded by 120000 points, otherwise the case is counted as skipped"]

INPUTS = ("cat", "catl", "emb", "gau")


@st.composite
def _case(draw, tier):
    big = tier == "thorough"
    cfg = opcheck.draw_cfg(draw)
    sem = cfg["semiring"]
    shape = draw(st.sampled_from(["single", "single", "single", "full", "nested", "product", "evidence"]))
    kw = dict(max_vars=5 if big else 4, max_K=3, input_types=INPUTS, ncat_max=3, same_scope_outputs=True)
    if sem == "lse-sum":
        kw.update(nonneg=True)
    elif sem == "complex-lse-sum":
        kw.update(cx=True)
    if shape == "product":
        bases = draw(gen.sd_pair(n=2, skeleton=True, max_reps=2, kron_max_out=9, **{k: v for k, v in dict(kw, max_vars=3, max_K=2).items() if k != 'same_scope_outputs'}))
        pipe = [{"op": "base", "i": 0}, {"op": "base", "i": 1}, {"op": "multiply", "a": 0, "b": 1}]
    else:
        bases = [draw(gen.sd_circuit(**kw))]
        pipe = [{"op": "base", "i": 0}]
    dom = gen.domains_of(bases[0])
    scope = sorted(dom)
    src = len(pipe) - 1
    if shape == "evidence" and len(scope) >= 2:
        obs = opcheck.draw_obs(draw, dom, scope, max_size=len(scope) - 1)
        pipe.append({"op": "evidence", "a": src, "obs": obs})
        src = len(pipe) - 1
        scope = [v for v in scope if v not in {o[0] for o in obs}]
    if shape == "full":
        pipe.append({"op": "integrate", "a": src, "Z": None if draw(st.booleans()) else scope})
    elif shape == "nested" and len(scope) >= 2:
        Z1 = opcheck.draw_subset(draw, scope, max_size=len(scope) - 1)
        rest = [v for v in scope if v not in Z1]
        Z2 = opcheck.draw_subset(draw, rest)
        pipe.append({"op": "integrate", "a": src, "Z": Z1})
        pipe.append({"op": "integrate", "a": len(pipe) - 1, "Z": Z2})
    else:
        pipe.append({"op": "integrate", "a": src, "Z": opcheck.draw_subset(draw, scope)})
    return dict(cfg, bases=bases, pipe=pipe, shape=shape)


def strategy(tier):
    return _case(tier)


def run_case(case):
    P = opcheck.prepare(case, refuse=())
    last = len(P.pipe) - 1
    X = opcheck.draw_X(P.domains, case["xseed"], case["B"])
    # documented scope of the result
    with_scope = frozenset(int(v) for v in P.target.scope)
    if with_scope != P.scopes[last]:
        raise Violation("result-scope", "scope", f"scope {sorted(with_scope)} expected {sorted(P.scopes[last])}")
    Zall = set()
    cont = False
    for n in P.pipe:
        if n["op"] == "integrate":
            Z = n["Z"] if n.get("Z") is not None else sorted(P.scopes[n["a"]])
            Zall |= set(Z)
            cont |= any(P.domains[v][0] == "c" for v in Z)
    res = opcheck.compare_node(P, last, X, "integral-vs-bruteforce", sig=f"{case['shape']}:{opcheck.feat(case)}:",
                               rtol=1e-8 if cont else 1e-9)
    classes = opcheck.pipe_classes(case) + opcheck.base_classes(case) + [f"shape:{case['shape']}", f"B:{case['B']}",
                                                                       f"|Z|:{min(len(Zall), 4)}"]
    if cont:
        classes.append("Z-has-gaussian")
    if not P.scopes[last]:
        classes.append("full-scope")
    if res != "ok":
        classes.append(res)
    types = {L["t"] for s in case["bases"] for L in s["layers"]}
    unnorm = bool(types & {"catl", "emb"}) or any(L.get("lp") for s in case["bases"] for L in s["layers"])
    multi = any(len(s["outputs"]) > 1 for s in case["bases"])
    nt = res == "ok" and ((len(Zall) >= 2 and bool(P.scopes[last])) or multi or unnorm
                          or case["shape"] in ("nested", "product"))
    return {"nontrivial": nt, "classes": sorted(set(classes))}
