"""Magnitude-aware numeric comparison (DESIGN 2.5)."""
import numpy as np

RTOL = 1e-9
ATOL = 1e-250  # products of hundreds of tiny factors underflow differently in numpy and torch


def lin(y, semiring: str):
    """Map a compiled output (torch tensor or ndarray) to linear space as numpy."""
    import torch

    if isinstance(y, torch.Tensor):
        y = y.detach().cpu().numpy()
    if semiring == "sum-product":
        return y
    with np.errstate(all="ignore"):
        return np.exp(y)


def mismatch(y, r, M, rtol=RTOL):
    """Return None if y agrees with reference r under magnitude bound M, else a description."""
    y = np.asarray(y)
    r = np.asarray(r)
    M = np.asarray(M, dtype=np.float64)
    if y.shape != r.shape:
        return f"shape {y.shape} != expected {r.shape}"
    if not np.all(np.isfinite(M)) or not np.all(np.isfinite(r)):
        return None  # degenerate reference (overflow); caller counts it
    with np.errstate(all="ignore"):
        err = np.abs(y - r)
    bad = ~(err <= rtol * M + ATOL)  # NaN in y -> bad
    if np.any(bad):
        i = np.unravel_index(np.argmax(np.where(np.isnan(err), np.inf, err / (M + ATOL))), err.shape)
        return (f"max mismatch at {tuple(int(j) for j in i)}: got {y[i]!r} expected {r[i]!r} "
                f"(bound M={M[i]:.3e}, rel err {float(np.nan_to_num(err[i], nan=np.inf)) / (M[i] + ATOL):.3e})")
    return None


def degenerate(r, M) -> bool:
    return (not np.all(np.isfinite(np.asarray(M, dtype=np.float64)))) or (not np.all(np.isfinite(r)))
