#!/bin/bash
# Offline setup: make sure hypothesis (and jsonschema, optional) are importable by /venv/bin/python.
set -u
PY=/venv/bin/python
WH=/opt/veriftools/wheels
if ! $PY -c "import hypothesis" 2>/dev/null; then
  /venv/bin/pip install --no-index --find-links "$WH" hypothesis >/dev/null 2>&1 || {
    echo "setup: cannot install hypothesis from $WH" >&2; exit 1; }
fi
if ! $PY -c "import jsonschema" 2>/dev/null; then
  # optional: only used to self-validate evidence files; installed out of tree
  mkdir -p /verif/.deps
  /venv/bin/pip install --no-index --find-links "$WH" --target /verif/.deps jsonschema >/dev/null 2>&1 || true
fi
$PY -c "import hypothesis, torch, numpy, scipy; print('setup ok: hypothesis', hypothesis.__version__)"
