#!/venv/bin/python
"""Regenerate MANIFEST.json from the table below (keeps it valid at all times)."""
import json
import sys
from pathlib import Path

ROOT = Path(__file__).resolve().parent.parent
sys.path.insert(0, str(ROOT))
sys.path.insert(0, str(ROOT / ".deps"))

CHECKS = {
    # id: (technique, level text, level note, design ref)
    "C08": ("Hypothesis PBT: generated layer DAGs and pairs vs set-based definitions; metamorphic invariance "
            "under input-order permutation, variable renumbering and operand swap",
            "Exploration: thousands of generated circuits (valid and invalid) per run are compared with an "
            "independent set-based definition and with themselves under order/numbering transformations; "
            "no absence claim beyond the generated sizes (<= 5 variables, <= 20 layers).",
            "Trusted: vlib/defs.py (set-based definitions), the spec builder; scopes of input layers are read "
            "from the symbolic layers.",
            "DESIGN.md section 4 C08"),
    "C01": ("Hypothesis PBT: generated smooth&decomposable layer DAGs x semiring x fold x optimize x values x batch "
            "class, differential against an independent numpy reference interpreter; metamorphic row-independence",
            "Exploration: every generated circuit is compiled and its outputs compared with a numpy interpreter "
            "of the symbolic circuit under the same parameter values, within a magnitude-aware float64 bound; "
            "bounded by <= 5 variables, <= 3 units per layer (Kronecker up to 16), batch <= 8.",
            "Trusted: vlib/ref.py (numpy interpreter written from the layer docstrings), vlib/tol.py tolerance model, "
            "numpy/scipy arithmetic; values are written through compiler.state.retrieve_compiled_parameter.",
            "DESIGN.md section 4 C01"),
    "C14": ("Hypothesis PBT: shape-directed random parameter graphs over every node type, axis and fold count, "
            "differential against numpy definitions of each node",
            "Exploration: thousands of generated parameter graphs (single nodes and compositions, folded and "
            "unfolded) per run compared with numpy definitions; bounded by rank <= 3, dims <= 4, depth <= 4, "
            "<= 4 folds.",
            "Trusted: vlib/ref.py eval_node definitions, conditioning-based tolerance; folding goes through the "
            "private helper cirkit.backend.torch.compiler._fold_parameters.",
            "DESIGN.md section 4 C14"),
}

def _op(pid, what, oracle, bounds):
    return (f"Hypothesis PBT: generated operator pipelines ({what}); differential against {oracle}",
            f"Exploration: every generated case applies the operator through cirkit.symbolic.functional, compiles the "
            f"result under a drawn semiring/fold/optimize setting and compares it with {oracle}, computed from the "
            f"OPERAND circuits only; {bounds}.",
            "Trusted: vlib/ref.py (numpy interpreter), vlib/ops.py (definitions of the operators on functions: "
            "brute-force sums, trapezoid quadrature, exact polynomial differentiation), vlib/tol.py tolerance model.",
            f"DESIGN.md section 4 {pid}")


CHECKS.update({
    "C03": _op("C03", "integrate over drawn Z, nested Z1/Z2, of products, of conditioned circuits",
               "brute-force sums / quadrature of the numpy reference of the operand",
               "bounded by <= 5 variables, <= 3 categories, joint grid over Z <= 120000 points"),
    "C04": _op("C04", "c1*c2, c*c, (c1*c2)*c3, evidence*evidence, c1*conj(c2) on skeleton-sharing circuits",
               "the product of the numpy references of the operands (output (i,j), Kronecker unit order)",
               "bounded by <= 4 variables, <= 3 units per operand layer, sum arity <= 2 per region"),
    "C05": _op("C05", "differentiate(c, k), differentiate(c1*c2, k) on polynomial-input circuits with renumbered variables",
               "exact polynomial derivatives of the numpy reference laid out in increasing variable-id order, plus "
               "autograd of the compiled operand for k = 1",
               "bounded by <= 5 variables, degree <= 3, order <= 3"),
    "C06": _op("C06", "evidence with partial/complete observations, evidence then integrate/evidence, concatenate",
               "the numpy reference of the operand on inputs with the observed columns overwritten / the stacked "
               "operand outputs",
               "bounded by <= 5 variables, <= 3 operands"),
    "C07": _op("C07", "conj(c), conj(conj(c)), conj(c1*c2), integrate(conj(c)), conj(c1)*c2 with real and complex parameters",
               "the complex conjugate of the numpy reference of the operand",
               "bounded by <= 5 variables, <= 3 units"),
})

CHECKS.update({
    "C02": ("Hypothesis PBT: generated circuits and operator pipelines compiled under the four (fold, optimize) settings "
            "with tied parameter values; differential flag-vs-flag and against the numpy reference; addressability "
            "invariant over the compiler state map",
            "Exploration: each case is compiled four times from the same symbolic objects; outputs must agree pairwise "
            "and with the reference, every symbolic tensor must be one distinct slice of one compiled tensor (shape, "
            "dtype, requires_grad, sentinel write); bounded by <= 5 variables, <= 3 operators per pipeline.",
            "Trusted: vlib/ref.py, vlib/ops.py, tolerance model; compiler.state.retrieve_compiled_parameter is used "
            "to tie values (if it returned a stale tensor the reference comparison fails).",
            "DESIGN.md section 4 C02"),
    "C13": ("Hypothesis PBT: autograd gradients of generated compiled circuits, pulled back to symbolic tensors, vs "
            "central finite differences of the numpy reference; differential across the four flag settings",
            "Exploration: directional derivatives along one random direction per tensor (and along continuous inputs) "
            "are compared with two-step finite differences of the same functional of the reference; gradients must "
            "agree across fold/optimize settings and be finite where the value is non-zero; <= 4 variables.",
            "Trusted: vlib/ref.py, finite-difference error estimate (difference of two step sizes), torch autograd "
            "itself for the functional applied on top of the circuit output.",
            "DESIGN.md section 4 C13"),
    "C19": ("Hypothesis PBT over histories: generated circuits / pipelines with a drawn sequence of save, perturb, "
            "reset and load steps; round-trip oracle (bit-identical outputs after load_state_dict into the same and "
            "into a freshly compiled instance)",
            "Exploration: state dictionaries are saved with torch.save and loaded strictly into the same instance and "
            "into a fresh compilation with different initial values; outputs must be bit-identical; each learnable "
            "tensor must occur exactly once in a base circuit's dictionary; <= 5 steps, <= 3 operators.",
            "Trusted: torch.save/load, determinism of single-threaded CPU evaluation.",
            "DESIGN.md section 4 C19"),
})

CHECKS.update({
    "C09": ("Hypothesis PBT: generated valid and invalid circuits / pairs / operator arguments; oracle = independent "
            "set-based structural definitions deciding which calls must be refused and which structure a returned "
            "circuit must have",
            "Exploration: thousands of generated operands (non-smooth, non-decomposable, incompatible, wrong scopes, "
            "bad orders / observations) per run: refusal with the documented exception is required exactly when the "
            "independent definitions say the input is invalid, and every returned circuit is re-validated (smooth, "
            "decomposable, scope, outputs, SD / compatibility of products, flags under conjugation); <= 5 variables.",
            "Trusted: vlib/defs.py set-based definitions; the library's own flags are never used to decide validity.",
            "DESIGN.md section 4 C09"),
    "C11": ("Hypothesis PBT: generated compiled circuits x batches x per-sample marginalisation masks in every accepted "
            "form; differential against brute-force / quadrature marginals of the numpy reference and against the "
            "compiled symbolic integrate",
            "Exploration: IntegrateQuery results are compared row by row with the marginal of the reference over "
            "exactly that row's variables (bool masks, scopes, lists of scopes, empty scopes, out-of-scope variables "
            "must raise ValueError), for every flag setting and batch classes incl. batch == fold count; <= 5 variables.",
            "Trusted: vlib/ref.py, vlib/ops.py grids (input-wise exact marginal when the grid exceeds 40000 points).",
            "DESIGN.md section 4 C11"),
})

CHECKS.update({
    "C15": ("Hypothesis PBT with a statistical oracle: generated normalised circuits x flags x torch seeds; samples of "
            "SamplingQuery tested against the exact joint table of the numpy reference (support test + Pearson "
            "chi-square at p < 1e-9)",
            "Exploration, statistical: 20000 samples per generated circuit; every sample must be in-domain and have "
            "positive reference probability, and the joint counts must pass a chi-square test against the exact "
            "probabilities; structural zeros, mixing / dense n-ary sums, Kronecker and CP-T fused layers are "
            "generated; <= 4 variables, <= 81 joint states. Distribution shifts below ~2% total variation are invisible.",
            "Trusted: vlib/ref.py for the exact probabilities, scipy.stats.chi2; false-alarm probability 1e-9 per case.",
            "DESIGN.md section 4 C15"),
})

CHECKS.update({
    "C16": ("Hypothesis PBT: every region-graph algorithm with generated arguments (incl. generated data sets for "
            "Chow-Liu) and every build_circuit mode; oracle = independent set-based validity predicates, dump/load "
            "round-trip, structural validation of the built circuit",
            "Exploration: generated region graphs are validated (root coverage, partitions disjoint / covering, single "
            "parent, SD flag == set-based definition), round-tripped through dump/load, and turned into circuits with "
            "cp / cp-t / tucker and explicit factories that are re-validated independently (smooth, decomposable, "
            "scope, SD, outputs); n <= 12 variables, images <= 2x5x5.",
            "Trusted: vlib/defs.py; ValueError on arguments outside an algorithm's documented domain is a refusal.",
            "DESIGN.md section 4 C16"),
})

CHECKS.update({
    "C12": ("Hypothesis PBT: circuits generated through every template family with normalised parameterisations x "
            "flags x semiring x value profiles x optimiser steps; oracle = partition function of the numpy reference "
            "and of the compiled circuit equals one, non-negativity, finiteness in log space, brute-force sums",
            "Exploration: template-built circuits (region graphs, image / tabular data, HMM, fully factorised, CP / "
            "Tucker with softmax) are checked to integrate to one by four routes (reference input-wise marginal, "
            "compiled symbolic integrate or IntegrateQuery, brute-force sum of compiled outputs, value agreement with "
            "the reference) for arbitrary unconstrained parameter values and after SGD/Adam steps; <= 12 variables.",
            "Trusted: vlib/ref.py closed-form input integrals; smoothness/decomposability of the templates (validated "
            "independently by C16).",
            "DESIGN.md section 4 C12"),
})

CHECKS.update({
    "C20": ("Hypothesis PBT: generated template arguments (tensor shapes / ranks, HMM orderings with per-variable "
            "arguments, deterministic decomposable formulas as node graphs and .sdd files); differential against the "
            "documented formulas coded independently in numpy (einsum contractions, forward algorithm, truth tables, "
            "model counts)",
            "Exploration: every generated template circuit is compiled (drawn flags / semiring / values) and compared "
            "on all index tuples or assignments (<= 4096) with the documented CP / Tucker / tensor-train contraction, "
            "HMM forward recursion or fully-factorised product, and logic circuits with the truth table and the model "
            "count (symbolic integrate and IntegrateQuery); per-variable kwargs are checked structurally.",
            "Trusted: numpy einsum formulas in vlib/props/C20.py, vlib/ref.py input functions; factor tensors are read "
            "from the compiled values by layer scope / graph position.",
            "DESIGN.md section 4 C20"),
})

CHECKS.update({
    "C17": ("Hypothesis PBT over (parameter set, fold grouping, reset history): generated shapes / dtypes / initialisers "
            "incl. every Dirichlet axis; oracle = exact predicates on the slice of each symbolic tensor (constants copied, "
            "sum-to-one along the declared axis, bounds, dtype, requires_grad) plus pooled moment tests",
            "Exploration: thousands of generated parameter sets per run, compiled unfolded and folded (bare parameter "
            "graphs and circuits), checked after compilation and after up to three resets; exact predicates carry the "
            "weight, moment tests (|z| > 7) are secondary; rank <= 3, dims <= 5, <= 5 parameters.",
            "Trusted: numpy predicates in vlib/props/C17.py; folding of bare parameters through the private helper "
            "_fold_parameters.",
            "DESIGN.md section 4 C17"),
})

CHECKS.update({
    "C18": ("Hypothesis model-based testing over call histories (drawn lists of context / compile / operator / lookup "
            "steps interpreted against the library and a model: stack of active contexts + identity maps); invariants "
            "checked after every step",
            "Exploration: generated histories (<= 16 steps quick, <= 40 thorough, <= 3 contexts, <= 8 base circuits) with "
            "nested distinct contexts, exceptional exits, repeated compiles, operators through module functions and "
            "context methods, foreign circuits; after each step the active context / registry, memoisation, both "
            "directions of the symbolic<->compiled map, operand compilation and operator provenance are checked.",
            "Trusted: the model in vlib/props/C18.py; private names cirkit.pipeline._PIPELINE_CONTEXT and "
            "PipelineContext._op_registry are read (never written) to observe the active context.",
            "DESIGN.md section 4 C18"),
})

CHECKS.update({
    "C10": ("Hypothesis model-based testing over update histories: generated operator pipelines compiled step by step in "
            "one compiler, interleaved with in-place perturbations, SGD / Adam steps, resets and state-dict loads; after "
            "every step each derived circuit is compared with its defining relation on the CURRENT compiled outputs of "
            "its operands and with the numpy reference; storage-subset invariant for learnable tensors",
            "Exploration: histories of <= 10 (quick) / 30 (thorough) steps over pipelines of <= 3 operators and <= 3 "
            "variables under drawn semiring / fold / optimize; relations: brute-force sums over Z, products in "
            "Kronecker order, autograd derivatives, conjugates, overwritten columns, stacking; no recompilation between "
            "updates.",
            "Trusted: vlib/ref.py + vlib/ops.py (reference at the current values read back through the state map), "
            "torch autograd for the differentiate relation.",
            "DESIGN.md section 4 C10"),
})

NOT_APPLICABLE = {}


def main():
    props = [json.loads(l) for l in (ROOT / "properties.jsonl").read_text().splitlines() if l.strip()]
    checks = []
    for p in props:
        pid = p["id"]
        if pid not in CHECKS:
            continue
        tech, text, note, ref = CHECKS[pid]
        checks.append({
            "property_id": pid,
            "quick_cmd": f"./check {pid} --tier quick",
            "thorough_cmd": f"./check {pid} --tier thorough",
            "evidence_file": f"evidence/{pid}.json",
            "replay_cmd_template": f"./check {pid} --replay {{path}}",
            "engine": "hypothesis-pbt",
            "level_claimed": {"category": "exploration", "text": text, "design_ref": ref},
            "level_note": note,
            "technique": tech,
        })
    na = []
    for p in props:
        pid = p["id"]
        if pid in CHECKS:
            continue
        na.append({"property_id": pid,
                   "reason": NOT_APPLICABLE.get(pid, "check not built yet in this session (planned, see DESIGN.md section 4)")})
    man = {
        "version": 1,
        "setup_cmd": "./setup.sh",
        "hooks": {
            "guard": "CIRKIT_VERIF",
            "enable": "none needed: checks import /repo's working tree directly (PYTHONPATH=$VERIF_REPO, default /repo); no source hooks",
            "baseline_off_cmd": "cd /repo && /venv/bin/python -m pytest -ra -q -p no:cacheprovider --timeout=900 --continue-on-collection-errors",
            "source_commits": [],
            "add_only": True,
        },
        "engines": [{"name": "hypothesis-pbt", "path": "vlib/", "serves_properties": sorted(CHECKS),
                     "kind_free_text": "Hypothesis strategies over JSON circuit specs + numpy reference interpreter; "
                                       "16-way sharded collect-then-shrink runner (vlib/runner.py)"}],
        "checks": checks,
        "not_applicable": na,
        "notes": "All checks: exit 0 held / 1 VIOLATION line(s) / 2 harness error (inconclusive). VERIF_SEED and VERIF_TIER honoured.",
    }
    (ROOT / "MANIFEST.json").write_text(json.dumps(man, indent=1) + "\n")
    try:
        import jsonschema
        jsonschema.validate(man, json.loads(Path("/root/.vp/MANIFEST.schema.json").read_text()))
        print("MANIFEST.json valid;", len(checks), "checks,", len(na), "not_applicable")
    except ImportError:
        print("MANIFEST.json written (jsonschema not importable)")


if __name__ == "__main__":
    main()
