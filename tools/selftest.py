#!/venv/bin/python
"""Self-tests of the oracle code (an oracle bug is a false alarm): internal consistency of vlib/ref.py and
vlib/ops.py against scipy and against each other. Run: PYTHONPATH=/verif:/repo /venv/bin/python tools/selftest.py"""
import sys
from pathlib import Path

sys.path.insert(0, str(Path(__file__).resolve().parent.parent))
import numpy as np
import torch
from scipy import stats

torch.set_default_dtype(torch.float64)
from vlib import ops, ref, tie  # noqa: E402
from vlib.spec import build, pk  # noqa: E402

rng = np.random.default_rng(0)
fails = []


def check(name, cond):
    print(("ok   " if cond else "FAIL ") + name)
    if not cond:
        fails.append(name)


# --- elementary densities
x = np.arange(0, 6)
check("binom_pmf == scipy", np.allclose(ref.binom_pmf(x, 5, 0.3), stats.binom.pmf(x, 5, 0.3), rtol=1e-13))
z = rng.normal(size=7)
check("normal_pdf == scipy", np.allclose(ref.normal_pdf(z, 0.3, 1.7), stats.norm.pdf(z, 0.3, 1.7), rtol=1e-13))

# --- a circuit with every discrete / Gaussian input type
spec = {"layers": [{"t": "cat", "v": 0, "K": 2, "n": 3, "p": pk("softmax")}, {"t": "catl", "v": 1, "K": 2, "n": 2, "p": pk("plain")},
                   {"t": "gau", "v": 2, "K": 2, "m": pk("plain", role="bounded"), "s": pk("ssig"), "lp": pk("plain", role="bounded")},
                   {"t": "emb", "v": 3, "K": 2, "n": 2, "p": pk("plain")}, {"t": "binl", "v": 4, "K": 2, "n": 2, "p": pk("plain")},
                   {"t": "had", "in": [0, 1, 2]}, {"t": "kro", "in": [3, 4]}, {"t": "sum", "in": [6], "K": 2, "p": pk("plain")},
                   {"t": "had", "in": [5, 7]}, {"t": "sum", "in": [8], "K": 1, "p": pk("plain")}], "outputs": [9]}
sc = build(spec)
tensors = tie.sym_tensors(sc)
vals = tie.draw_values(tensors, 3, "normal")
dom = {0: ("d", 3), 1: ("d", 2), 2: ("c",), 3: ("d", 2), 4: ("d", 3)}
X = np.array([[1, 0, 0.3, 1, 2], [2, 1, -0.7, 0, 0]], dtype=np.float64)
orc = ops.PipeOracle([{"op": "base", "i": 0}, {"op": "integrate", "a": 0, "Z": [0, 2, 4]}], [spec], [sc], vals, dom)
bf = orc.value(1, X)
iw = ref.marginal_inputwise(sc, vals, X, [0, 2, 4])
check("brute-force (grid + trapezoid) marginal == input-wise exact marginal", np.allclose(bf, iw, rtol=1e-10))
# logits binomial: sums to one over its domain
Xb = np.array([[0, 0, 0, 0, k] for k in range(3)], dtype=np.float64)
sl = sc._vlayers[4]
check("logits binomial pmf sums to one", np.allclose(ref.input_fn(sl, vals, Xb[:, 4]).sum(axis=0), 1.0, rtol=1e-13))

# --- polynomial derivative: exact (coefficients) vs interpolation vs finite differences
pspec = {"layers": [{"t": "pol", "v": 0, "K": 2, "n": 3, "p": pk("plain")}, {"t": "pol", "v": 1, "K": 2, "n": 2, "p": pk("plain")},
                    {"t": "kro", "in": [0, 1]}, {"t": "sum", "in": [2], "K": 2, "p": pk("plain")}], "outputs": [3]}
psc = build(pspec)
pvals = tie.draw_values(tie.sym_tensors(psc), 5, "normal")
Xp = rng.normal(size=(3, 2))
po = ops.PipeOracle([{"op": "base", "i": 0}, {"op": "differentiate", "a": 0, "order": 2}], [pspec], [psc], pvals, {0: ("c",), 1: ("c",)})
exact = ref.derivative(psc, pvals, Xp, 0, 2)
interp = po._interp_derivative(0, Xp, 0, 2, False)
check("exact polynomial derivative == Vandermonde interpolation", np.allclose(exact, interp, rtol=1e-9, atol=1e-11))
h = 1e-4
E = np.array([h, 0.0])
fd = (ref.evaluate(psc, pvals, Xp + E) - 2 * ref.evaluate(psc, pvals, Xp) + ref.evaluate(psc, pvals, Xp - E)) / h**2
check("exact second derivative ~= finite differences", np.allclose(exact, fd, rtol=1e-4, atol=1e-5))
d = po.value(1, Xp)
check("differentiate layout: [d/dx0, d/dx1, c]", d.shape == (3, 3, 2) and np.allclose(d[:, 2], ref.evaluate(psc, pvals, Xp)[:, 0]))

# --- product oracle: Kronecker unit order and output order
mo = ops.PipeOracle([{"op": "base", "i": 0}, {"op": "multiply", "a": 0, "b": 0}], [pspec], [psc], pvals, {0: ("c",), 1: ("c",)})
a = ref.evaluate(psc, pvals, Xp)[:, 0]
check("multiply oracle == np.kron per row", np.allclose(mo.value(1, Xp)[:, 0], np.stack([np.kron(r, r) for r in a])))

# --- a few parameter nodes against alternative formulas
A, B = rng.normal(size=(2, 3)), rng.normal(size=(4, 3))
check("outer product axis 0 == einsum", np.allclose(ref._outer(A, B, 0, np.multiply), np.einsum("ik,jk->ijk", A, B).reshape(8, 3)))
V = rng.normal(size=(3, 2))

class _N:  # minimal stand-in carrying the class identity only
    pass

from cirkit.symbolic import parameters as P  # noqa: E402
W = ref.eval_node(P.MixingWeightParameter((3, 2)), [V], {})
xs = [rng.normal(size=3) for _ in range(2)]
check("mixing weight: W @ concat(x) == sum_h V[:,h] * x_h", np.allclose(W @ np.concatenate(xs), V[:, 0] * xs[0] + V[:, 1] * xs[1]))
m1, s1, m2, s2 = rng.normal(size=2), np.abs(rng.normal(size=2)) + .5, rng.normal(size=3), np.abs(rng.normal(size=3)) + .5
gm = ref.eval_node(P.GaussianProductMean((2,), (2,), (3,), (3,)), [m1, s1, m2, s2], {})
gs = ref.eval_node(P.GaussianProductStddev((2,), (3,)), [s1, s2], {})
gl = ref.eval_node(P.GaussianProductLogPartition((2,), (2,), (3,), (3,)), [m1, s1, m2, s2], {})
t = 0.37
lhs = np.kron(stats.norm.pdf(t, m1, s1), stats.norm.pdf(t, m2, s2))
check("Gaussian product statistics: N1*N2 == exp(lp) * N(mean, std)", np.allclose(lhs, np.exp(gl) * stats.norm.pdf(t, gm, gs), rtol=1e-10))
# --- the repository's own hand-computed ground truth (tests/symbolic/test_utils.py), through the reference only
try:
    sys.path.insert(0, "/repo")
    from tests.symbolic.test_utils import (build_monotonic_bivariate_gaussian_hadamard_dense_pc,
                                           build_monotonic_structured_categorical_cpt_pc)

    def init_vals(c):
        out = {}
        for t in tie.sym_tensors(c, include_const=True):
            v = t.initializer.value
            out[t] = np.broadcast_to(np.asarray(v, dtype=np.float64), t.shape).copy()
        return out

    c1, gt1, z1 = build_monotonic_structured_categorical_cpt_pc(return_ground_truth=True)
    v1 = init_vals(c1)
    for xs, want in gt1["evi"].items():
        got = ref.evaluate(c1, v1, np.array([xs], dtype=np.float64))[0, 0, 0]
        check(f"repo ground truth (categorical) at {xs}", abs(got - want) <= 1e-3 * abs(want))
    check("repo ground truth (categorical) partition function",
          abs(ref.marginal_inputwise(c1, v1, np.zeros((1, 5)), range(5))[0, 0, 0] - z1) <= 1e-9 * z1)
    c2, gt2, z2 = build_monotonic_bivariate_gaussian_hadamard_dense_pc(return_ground_truth=True)
    v2 = init_vals(c2)
    for xs, want in gt2["evi"].items():
        got = ref.evaluate(c2, v2, np.array([xs], dtype=np.float64))[0, 0, 0]
        check(f"repo ground truth (gaussian) at {xs}", abs(got - want) <= 1e-6 * abs(want))  # hand-computed to ~8 digits
    check("repo ground truth (gaussian) partition function",
          abs(ref.marginal_inputwise(c2, v2, np.zeros((1, 2)), range(2))[0, 0, 0] - z2) <= 1e-9 * z2)
except ImportError as e:  # the repository's tests are not importable: skip, do not fail
    print("skip repo ground truth:", e)

print("selftest:", "FAILED " + str(fails) if fails else "all ok")
sys.exit(1 if fails else 0)
