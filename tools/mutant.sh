#!/bin/bash
# mutant.sh <file-under-/repo> <python-regex-old> <new> <check-id>... : apply a one-line mutation, run quick checks, revert.
F=/repo/$1; OLD=$2; NEW=$3; shift 3
/venv/bin/python - "$F" "$OLD" "$NEW" <<'PY' || exit 2
import sys,re
f,old,new=sys.argv[1:4]
s=open(f).read()
if old not in s: print("pattern not found"); sys.exit(1)
open(f,'w').write(s.replace(old,new,1))
PY
cd /verif
for id in "$@"; do
  VERIF_SHRINK_CALLS=0 ./check $id --tier quick 2>&1 | grep -E "^\[|signature" | cut -c1-220 | head -4
done
git -C /repo checkout -- .
git -C /verif checkout -- evidence 2>/dev/null
