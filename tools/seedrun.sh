#!/bin/bash
# seedrun.sh <patch.diff> <check-id>...  — apply the patch to /repo, run the quick checks, undo it.
PATCH=$(readlink -f $1); shift
cd /verif
git -C /repo apply $PATCH || { echo "patch does not apply"; exit 2; }
for id in "$@"; do
  VERIF_SHRINK_CALLS=${VERIF_SHRINK_CALLS:-0} ./check $id --tier quick 2>&1 | grep -E "^\[|VIOLATION|signature|HARNESS" | cut -c1-260 | head -8
done
git -C /repo checkout -- .
git -C /repo status --short | head -3
git -C /verif checkout -- evidence 2>/dev/null   # evidence written against a patched tree is not evidence
