#!/bin/bash
# seedrun.sh <patch.diff> <check-id>...  — apply the patch to /repo, run the quick checks, undo it.
# SEED_REPO=<worktree>: use a scratch worktree of /repo instead of /repo itself (e.g. while another job uses /repo).
PATCH=$(readlink -f $1); shift
R=${SEED_REPO:-/repo}
export VERIF_REPO=$R
cd /verif
git -C $R apply $PATCH || { echo "patch does not apply"; exit 2; }
for id in "$@"; do
  VERIF_SHRINK_CALLS=${VERIF_SHRINK_CALLS:-0} ./check $id --tier quick 2>&1 | grep -E "^\[|VIOLATION|signature|HARNESS" | cut -c1-260 | head -8
done
git -C $R checkout -- .
git -C $R status --short | head -3
git -C /verif checkout -- evidence 2>/dev/null   # evidence written against a patched tree is not evidence
