#!/venv/bin/python
import json, sys
d = json.load(open(sys.argv[1]))
print(d.get('signature'), '|', d.get('detail', '')[:300])
c = d['case']
for b in c.get('bases', []):
    for i, L in enumerate(b['layers']):
        print('  ', i, L)
    print('  outs', b['outputs'], b.get('_domains'))
print([n for n in c.get('pipe', []) if n['op'] != 'base'], {k: v for k, v in c.items() if k not in ('bases', 'pipe')})
