#!/bin/bash
# multiseed.sh <tier> <seed>... : run every registered check at the given seeds; print one line per run.
TIER=$1; shift
cd "$(dirname "$0")/.."
IDS=$(/venv/bin/python -c "import json;print(' '.join(c['property_id'] for c in json.load(open('MANIFEST.json'))['checks']))")
for seed in "$@"; do
  for id in $IDS; do
    out=$(VERIF_SEED=$seed ./check $id --tier $TIER 2>&1); rc=$?
    echo "seed=$seed $id rc=$rc $(echo "$out" | grep -E '^\[' | tail -1)"
    echo "$out" | grep -E "VIOLATION|signature|HARNESS" | cut -c1-300
  done
done
