#!/venv/bin/python
"""seedstore.py <seed-id> <property> <patch> <demo> <confirm-log> <caught-by csv> <needs...>
Stores a confirmed seeded change under /verif/seeded/<seed-id>/."""
import json, shutil, sys
from pathlib import Path
sid, prop, patch, demo, log, caught = sys.argv[1:7]
needs = " ".join(sys.argv[7:])
d = Path("/verif/seeded") / sid
d.mkdir(parents=True, exist_ok=True)
shutil.copy(patch, d / "patch.diff")
shutil.copy(demo, d / "demo.py")
conf = dict(l.strip().split("=", 1) for l in open(log) if "=" in l)
meta = {"seed_id": sid, "breaks_property": prop, "needs_to_manifest": needs,
        "confirmed_in_scratch_worktree": conf,
        "what_was_run": ["tools/seedconfirm.sh (scratch worktree of /repo: demo without patch, git apply, demo with patch, full test-suite with patch)",
                         "tools/seedrun.sh <patch> <checks> (git -C /repo apply; ./check <id> --tier quick; git -C /repo checkout -- .)"],
        "caught_by_quick_checks": [c for c in caught.split(",") if c],
        "origin": "independent sub-agent given only the property text and a scratch worktree"}
(d / "meta.json").write_text(json.dumps(meta, indent=1) + "\n")
print("stored", d)
