#!/venv/bin/python
"""addfinding.py PROPERTY ID STATUS COMMIT REPLAY WHAT  — append an entry to known_findings.json"""
import json, sys
from pathlib import Path
ROOT = Path(__file__).resolve().parent.parent
pid, fid, status, commit, replay, what = sys.argv[1:7]
p = ROOT / "known_findings.json"
d = json.loads(p.read_text())
d["findings"] = [e for e in d["findings"] if e["id"] != fid]
e = {"property": pid, "id": fid, "status": status, "replay": replay}
if status == "fixed":
    e["commit"] = commit
    e["line"] = f"fixed: property={pid} {commit} {what}"
else:
    e["what"] = what
    if len(sys.argv) > 7:
        e["signature"] = sys.argv[7]
d["findings"].append(e)
p.write_text(json.dumps(d, indent=1) + "\n")
print("ok", fid)
