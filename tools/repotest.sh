#!/bin/bash
# Run the repository's own test-suite (baseline command) and print the summary line.
cd /repo && /venv/bin/python -m pytest -q -p no:cacheprovider --timeout=900 --continue-on-collection-errors 2>&1 | grep -E "passed|failed|error" | tail -3
