#!/venv/bin/python
import json, sys
d = json.load(open(sys.argv[1]))
print(d.get('signature'), '|', d.get('detail', '')[:400])
c = d['case']
for key in ('spec',):
    if key in c:
        for i, L in enumerate(c[key]['layers']):
            print('  ', i, L)
        print('  outs', c[key]['outputs'], c[key].get('_domains'))
print({k: v for k, v in c.items() if k not in ('spec', 'bases', 'pipe')})
