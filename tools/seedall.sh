#!/bin/bash
# seedall.sh : for every stored seeded change, apply it to /repo, run the quick checks named in its meta.json
# (caught_by_quick_checks), undo it, and print one line per (seed, check): CAUGHT / MISSED / PATCH-DOES-NOT-APPLY.
cd /verif
for d in seeded/${1:-*}/; do   # optional argument: a glob over seed ids
  id=$(basename $d)
  checks=$(/venv/bin/python -c "import json;print(' '.join(json.load(open('$d/meta.json'))['caught_by_quick_checks']))")
  if ! git -C /repo apply --check $PWD/$d/patch.diff 2>/dev/null; then echo "$id PATCH-DOES-NOT-APPLY"; continue; fi
  git -C /repo apply $PWD/$d/patch.diff
  for c in $checks; do
    out=$(VERIF_SHRINK_CALLS=0 ./check $c --tier quick 2>&1)
    if echo "$out" | grep -q "^VIOLATION"; then echo "$id $c CAUGHT ($(echo "$out" | grep -c '^VIOLATION') buckets)"; else echo "$id $c MISSED"; fi
  done
  git -C /repo checkout -- .
done
git -C /verif checkout -- evidence 2>/dev/null
