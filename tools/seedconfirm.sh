#!/bin/bash
# seedconfirm.sh <seed-id> <patch.diff> <demo.py>
# Confirms in a scratch worktree of /repo: patch applies, test-suite passes with it, demo fails with it and passes without.
set -u
ID=$1; PATCH=$(readlink -f $2); DEMO=$(readlink -f $3)
WT=/tmp/seedconfirm_$ID
git -C /repo worktree add -q --detach $WT HEAD || exit 2
cd $WT
OUT=/tmp/seedconfirm_$ID.log; : > $OUT
PYTHONPATH=$WT timeout 600 /venv/bin/python $DEMO >/dev/null 2>&1; echo "demo_without_patch_exit=$?" >> $OUT
git apply $PATCH || { echo "patch_applies=no" >> $OUT; cd /; git -C /repo worktree remove --force $WT; cat $OUT; exit 1; }
echo "patch_applies=yes" >> $OUT
PYTHONPATH=$WT timeout 600 /venv/bin/python $DEMO >/dev/null 2>&1; echo "demo_with_patch_exit=$?" >> $OUT
PYTHONPATH=$WT /venv/bin/python -m pytest -q -p no:cacheprovider --timeout=900 tests 2>&1 | grep -E "passed|failed|error" | tail -1 | sed 's/^/tests_with_patch=/' >> $OUT
cd /; git -C /repo worktree remove --force $WT
cat $OUT
